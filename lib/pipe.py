"""Level T pipeline: scripts -> replay on the real code (replay_t) -> TLC monitor (CfdpTrace)."""
import json
import os
import subprocess
import concurrent.futures as cf

import common
import tlc

JVM = ["-Xss1g", "-Dtlc2.tool.queue.IStateQueue=StateDeque"]


def exercised(trace_path, acc=None):
    """non-vacuity: how often the recorded executions contain what the property predicates talk about"""
    acc = acc if acc is not None else {}

    def bump(k, n=1):
        acc[k] = acc.get(k, 0) + n
    with open(trace_path) as f:
        for line in f:
            l = json.loads(line)
            a = l.get("a")
            if a == "Reset":
                bump("executions")
                continue
            bump("action:" + a + (":" + l["c"] if a in ("S_Cmd", "R_Cmd") else ""))
            if l.get("epi"):
                bump("epilogue_steps")
            for p in l.get("out", []):
                bump("pdu_out:" + p["k"])
            for x in l.get("ind", []):
                bump("indication:" + x["k"] + (":" + x["cond"] if x["k"] in ("Fault", "Abandon") and "cond" in x else ""))
                if x["k"] == "Finished" and x.get("cond") == "NoError" and x.get("deliv") == "Complete":
                    bump("success_indications")
            if a == "Deliver" and l.get("idx", 1) > 1:
                bump("reordered_deliveries")
    return acc


def _shard(args):
    scripts_path, trace_path, tlcdir = args
    p = subprocess.run([os.path.join(common.BIN, "replay_t"), scripts_path, trace_path],
                       stdout=subprocess.PIPE, stderr=subprocess.PIPE, text=True)
    if p.returncode != 0:
        raise common.ToolError("replay_t failed on %s: %s" % (scripts_path, p.stderr[-2000:]))
    r = tlc.run(common.VERIF + "/spec/trace/CfdpTrace.tla", common.VERIF + "/spec/trace/CfdpTrace.cfg", tlcdir,
                workers=1, xmx="3g", timeout=3600, env={"TRACE": trace_path}, jvm=JVM)
    viol, consumed = [], None
    for tag, v in tlc.tagged(r.text, ("VIOL", "CONSUMED", "DRIFT")):
        if tag == "CONSUMED":
            consumed = v
        else:
            viol.append((tag, v))
    if consumed is None or consumed[0] != consumed[1]:
        tail = "\n".join(r.text.splitlines()[-30:])
        raise common.ToolError("trace %s not fully consumed by the monitor: %s\n%s" % (trace_path, consumed, tail))
    return viol, consumed[1], r.wall, exercised(trace_path)


def run_scripts(scripts, workdir, shards=12, keep=True):
    """scripts: list of dicts {id, cfg, path}.  Returns (violations, stats).
    violations: list of dict(id, line, tag)."""
    os.makedirs(workdir, exist_ok=True)
    shards = max(1, min(shards, (len(scripts) + 199) // 200))
    parts = [[] for _ in range(shards)]
    for i, s in enumerate(scripts):
        parts[i % shards].append(s)
    jobs = []
    for k, part in enumerate(parts):
        sp = os.path.join(workdir, "scripts-%d.ndjson" % k)
        with open(sp, "w") as f:
            for s in part:
                f.write(json.dumps(s) + "\n")
        jobs.append((sp, os.path.join(workdir, "trace-%d.ndjson" % k), os.path.join(workdir, "tlc-%d" % k)))
    viols, drifts, events, exer = [], [], 0, {}
    with cf.ThreadPoolExecutor(max_workers=shards) as ex:
        for v, n, wall, ex1 in ex.map(_shard, jobs):
            events += n
            for k, c in ex1.items():
                exer[k] = exer.get(k, 0) + c
            for tag, x in v:
                if tag == "DRIFT":
                    drifts.append({"id": x[0], "line": x[1], "action": x[2], "parts": sorted(x[3])})
                else:
                    viols.append({"kind": tag, "id": x[0], "line": x[1], "tag": x[2], "sig": x[3] if len(x) > 3 else ""})
    return viols, {"scripts": len(scripts), "events": events, "shards": shards, "drift": drifts, "exercised": exer}


def trace_of(workdir, script_id):
    """the recorded trace lines of one script (for replay files / diagnostics)"""
    out = []
    for fn in sorted(os.listdir(workdir)):
        if not fn.startswith("trace-"):
            continue
        cur = False
        with open(os.path.join(workdir, fn)) as f:
            for line in f:
                d = json.loads(line)
                if d["a"] == "Reset":
                    cur = d["id"] == script_id
                if cur:
                    out.append(d)
        if out:
            return out
    return out
