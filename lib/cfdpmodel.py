"""Generating MC modules of Cfdp.tla from configuration tables, running TLC on them and
turning the printed edges into replay scripts."""
import json
import os

import common
import tlc

VARS = "s, r, w, c2r, c2s, rinc, used, nf, black, inj, o, ev, viol, hist"


def tla(v):
    """python value -> TLA+ literal"""
    if isinstance(v, bool):
        return "TRUE" if v else "FALSE"
    if isinstance(v, int):
        return str(v)
    if isinstance(v, str):
        return '"%s"' % v
    if isinstance(v, (list, tuple)):
        return "<<" + ", ".join(tla(x) for x in v) + ">>"
    if isinstance(v, (set, frozenset)):
        return "{" + ", ".join(sorted(tla(x) for x in v)) + "}"
    if isinstance(v, dict):
        if not v:
            return "<<>>"
        return "[" + ", ".join("%s |-> %s" % (k, tla(x)) for k, x in v.items()) + "]"
    raise ValueError(v)


BASE = {"mode": "ack", "closure": False, "nakproc": "def", "delay": 0, "limit": 2, "to": [4, 2, 3],
        "handlers": {}, "crc": False, "cksum": "modular", "seg": 2, "unit": 8, "file": [1, 2, 0],
        "isfile": True, "fsreqs": [], "pre": {}}


def mkcfg(**kw):
    c = dict(BASE)
    c.update(kw)
    return c


ALLKINDS = ("drop", "dup", "reorder", "hold")


def write_mc(name, cfg, maxfaults, cmds, known, outdir, emit=True, invariant="OnlyKnown", extra_cfg="", blackouts=(), injects=(), kinds=ALLKINDS):
    os.makedirs(outdir, exist_ok=True)
    # fsreqs / pre in TLA+ form
    mod = os.path.join(outdir, "MC_%s.tla" % name)
    with open(mod, "w") as f:
        f.write("---- MODULE MC_%s ----\n" % name)
        f.write("(* generated from spec/mc/configs.json by lib/cfdpmodel.py *)\n")
        f.write("EXTENDS Integers, Sequences, FiniteSets, TLC\n")
        f.write("Cfg == %s\n" % tla(cfg))
        f.write("MaxFaults == %d\n" % maxfaults)
        f.write("Cmds == %s\n" % tla(set(tuple(c) for c in cmds)))
        f.write("KnownSigs == %s\n" % tla(set(known)))
        f.write("FaultKinds == %s\n" % tla(set(kinds)))
        f.write("Blackouts == %s\n" % tla(set(blackouts)))
        f.write("Injects == %s\n" % tla([{"ch": i["ch"], "pdu": model_pdu(i["pdu"], cfg)} for i in injects]))
        f.write("VARIABLES %s\n" % VARS)
        f.write("INSTANCE Cfdp\n====\n")
    cfgp = os.path.join(outdir, "MC_%s.cfg" % name)
    with open(cfgp, "w") as f:
        if emit:
            # no invariant: the exploration always completes; unknown model violations are printed
            f.write("SPECIFICATION Spec\nVIEW View\nCHECK_DEADLOCK FALSE\nACTION_CONSTRAINT EmitAll\n")
        else:
            f.write("SPECIFICATION Spec\nINVARIANT %s\nVIEW View\nCHECK_DEADLOCK FALSE\n" % invariant)
        f.write(extra_cfg)
    return mod, cfgp


ACTMAP = {"S_Send": "S_Send", "R_Send": "R_Send", "S_Timeout": "S_Timeout", "R_Timeout": "R_Timeout"}


def step_json(t, injects=()):
    a, ch, n, c = t
    d = {"a": a}
    if a == "Inject":
        d["ch"] = ch
        d["pdu"] = injects[n - 1]["pdu"]
    if a == "Blackout":
        d["ch"] = ch
    if a in ("Deliver", "Drop", "Dup"):
        d["ch"] = ch
        d["i"] = n
    elif a == "Tick":
        d["d"] = n
    elif a in ("S_Cmd", "R_Cmd"):
        d["c"] = c
    return d


def model_pdu(p, cfg):
    """the record the model puts on the link for an injected PDU (same shape as the projector's)"""
    k = p["k"]
    n = len(cfg["file"])
    d = dict(p)
    d["hdr"] = True
    if k == "NAK":
        d["dir"] = "c2s"
        d["fits"] = len(p["reqs"]) * 8 + 5 <= cfg["seg"] * cfg["unit"]
    elif k == "Data":
        d["dir"] = "c2r"
        d["len"] = max(0, min(p["off"] + p["len"], n) - p["off"])
        d["ok"] = True
        d["inside"] = True
        d["fits"] = d["len"] <= cfg["seg"]
    elif k == "EOF":
        # an adversarial peer may announce a wrong size ("size") or a checksum that is not the source's ("ckok": false)
        d.update({"dir": "c2r", "size": p.get("size", n), "ckok": p.get("ckok", True), "loc": False, "ok": True})
    elif k == "Metadata":
        d.update({"dir": "c2r", "size": n, "closure": cfg["closure"], "nreqs": len(cfg["fsreqs"]), "ok": True})
    elif k == "ACK":
        d.update({"dir": "c2r" if p["of"] == "Finished" else "c2s", "sub": 1 if p["of"] == "Finished" else 0, "status": "Active"})
    elif k == "Finished":
        d.update({"dir": "c2s", "resp": [], "loc": False})
    elif k == "Prompt":
        d["dir"] = "c2r"
    elif k == "KeepAlive":
        d["dir"] = "c2s"
    return d


def run_model(name, cfg, maxfaults, cmds, known, workdir, workers=8, timeout=3600, emit=True, xmx="12g", blackouts=(), injects=(), kinds=ALLKINDS):
    """returns (TlcResult, maximal scripts as lists of step dicts)"""
    mod, cfgp = write_mc(name, cfg, maxfaults, cmds, known, os.path.join(workdir, "mc"), emit=emit,
                         blackouts=blackouts, injects=injects, kinds=kinds)
    r = tlc.run(mod, cfgp, os.path.join(workdir, "tlc-" + name), workers=workers, timeout=timeout, xmx=xmx,
                extra=[])
    paths = []
    if emit:
        for tag, v in tlc.tagged(r.text, ("EDGE",)):
            paths.append(tuple(tuple(x) for x in v[0]))
        paths = maximal(paths)
    return r, paths


def maximal(paths):
    """drop every path that is a proper prefix of another one"""
    ps = sorted(set(paths))
    out = []
    for i, p in enumerate(ps):
        if i + 1 < len(ps) and ps[i + 1][:len(p)] == p:
            continue
        out.append(p)
    return out


def scripts_of(name, cfg, paths, injects=()):
    return [{"id": "%s-%d" % (name, i), "cfg": cfg, "path": [step_json(t, injects) for t in p]} for i, p in enumerate(paths)]
