"""Shared plumbing of the checks: build, work dirs, evidence, verdict lines, known findings."""
import fcntl
import json
import os
import shutil
import subprocess
import sys
import time

VERIF = os.environ.get("CFDP_VERIF_ROOT", "/verif")   # overridden only by bin/seedtest (snapshot runs)
HARNESS = os.path.join(VERIF, "harness")
BIN = os.path.join(HARNESS, "target", "debug")
WORK = os.path.join(VERIF, ".work")


class ToolError(Exception):
    """something in the machinery failed (exit 2) - never a verdict about the code"""


def log(*a):
    print(*a, file=sys.stderr, flush=True)


def build_harness():
    """(re)build the harness against /repo's current working tree, hooks on"""
    os.makedirs(WORK, exist_ok=True)
    lock = open(os.path.join(WORK, "build.lock"), "w")
    fcntl.flock(lock, fcntl.LOCK_EX)
    try:
        # the lock file of the harness follows /repo's so that path deps resolve offline
        t0 = time.time()
        env = dict(os.environ, CARGO_NET_OFFLINE="true")
        p = subprocess.run(["cargo", "build", "--offline", "--bins"], cwd=HARNESS, env=env,
                           stdout=subprocess.PIPE, stderr=subprocess.STDOUT, text=True)
        if p.returncode != 0:
            raise ToolError("harness build failed:\n" + p.stdout[-4000:])
        return time.time() - t0
    finally:
        fcntl.flock(lock, fcntl.LOCK_UN)
        lock.close()


def run_bin(name, args, timeout=3600, stdin=None, env=None, cwd=None):
    e = dict(os.environ)
    if env:
        e.update(env)
    p = subprocess.run([os.path.join(BIN, name)] + [str(a) for a in args], input=stdin,
                       stdout=subprocess.PIPE, stderr=subprocess.PIPE, text=True, timeout=timeout,
                       env=e, cwd=cwd)
    if p.returncode != 0:
        raise ToolError("%s exited %d: %s" % (name, p.returncode, p.stderr[-3000:]))
    return p.stdout


def known_findings():
    p = os.path.join(VERIF, "known_findings.json")
    if not os.path.exists(p):
        return {"findings": [], "fixed": []}
    with open(p) as f:
        return json.load(f)


class Check:
    """one run of one property's check"""

    def __init__(self, prop, tier, seed, level):
        self.prop = prop
        self.tier = tier
        self.seed = seed
        self.level = level
        self.t0 = time.time()
        self.work = os.path.join(WORK, "%s-%s" % (prop, tier))
        shutil.rmtree(self.work, ignore_errors=True)       # nothing of an earlier run is reused
        os.makedirs(self.work, exist_ok=True)
        self.coverage = {}
        self.assumptions = []
        self.violations = []       # (what, replay path)
        self.known = []            # lines
        self.notes = []

    def replay_path(self, name):
        d = os.path.join(VERIF, "replays", self.prop)
        os.makedirs(d, exist_ok=True)
        return os.path.join(d, name)

    def violation(self, what, replay_obj, name=None):
        name = name or ("%s-%s-%d.json" % (self.prop, self.tier, len(self.violations)))
        path = self.replay_path(name)
        with open(path, "w") as f:
            json.dump(replay_obj, f, indent=1)
        self.violations.append((what, path))
        return path

    def known_finding(self, what):
        self.known.append(what)

    def finish(self):
        wall = time.time() - self.t0
        ev = {
            "property_id": self.prop,
            "tier": self.tier,
            "seed": self.seed,
            "level": self.level,
            "coverage": self.coverage,
            "assumptions": self.assumptions,
            "wall_s": round(wall, 2),
            "violations": len(self.violations),
        }
        if self.known:
            ev["coverage"]["known_findings_reproduced"] = self.known
        if self.notes:
            ev["coverage"]["notes"] = self.notes
        os.makedirs(os.path.join(VERIF, "evidence"), exist_ok=True)
        tmp = os.path.join(VERIF, "evidence", self.prop + ".json.tmp")
        with open(tmp, "w") as f:
            json.dump(ev, f, indent=1)
        os.replace(tmp, os.path.join(VERIF, "evidence", self.prop + ".json"))
        for k in self.known:
            print("KNOWN-FINDING: property=%s %s" % (self.prop, k))
        for what, path in self.violations:
            print("VIOLATION property=%s replay=%s" % (self.prop, path))
            log("  " + what)
        sys.stdout.flush()
        if not os.environ.get("CFDP_VERIF_KEEP"):
            # scratch (scripts, recorded traces, TLC metadirs) is large; replays of violations were copied out above
            shutil.rmtree(self.work, ignore_errors=True)
        return 1 if self.violations else 0


def sweep_jails():
    """the fs harness chroots into .work/jails/cr-<pid> and empties it when it ends; the empty directories are removed here"""
    d = os.path.join(VERIF, ".work", "jails")
    if os.path.isdir(d):
        for n in os.listdir(d):
            if n.startswith("cr-"):
                try:
                    os.rmdir(os.path.join(d, n))
                except OSError:
                    pass
