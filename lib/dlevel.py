"""Level D: scenarios for real Daemons (harness run_d), their execution, conversion to
specification traces and validation by TLC (CfdpTrace.tla per transaction, DaemonTrace.tla for the
daemon layer)."""
import concurrent.futures as cf
import json
import os
import random
import subprocess

import common
import dconv
import tlc

JVM = ["-Xss1g", "-Dtlc2.tool.queue.IStateQueue=StateDeque"]

BASE = {"closure": False, "nakproc": "def", "delay": 0, "limit": 2, "to": [4, 2, 3], "handlers": {},
        "crc": False, "cksum": "modular", "seg": 2, "unit": 8, "pre": {}}


def dcfg(**kw):
    c = dict(BASE)
    c.update(kw)
    return c


def fault_plans(workdir, F, n1=6, n2=4, delay=3, blackouts=True):
    """every placement of <= F faults over the first PDUs of each direction (+ cut points): TLC on FaultPlans.tla"""
    os.makedirs(workdir, exist_ok=True)
    cfg = os.path.join(workdir, "MC_FaultPlans.cfg")
    with open(cfg, "w") as f:
        f.write("SPECIFICATION Spec\nCONSTANT N1 = %d\nCONSTANT N2 = %d\nCONSTANT F = %d\nCONSTANT Delay = %d\nCONSTANT Blackouts = %s\n"
                "INVARIANT Emit\nCHECK_DEADLOCK FALSE\n" % (n1, n2, F, delay, "TRUE" if blackouts else "FALSE"))
    r = tlc.run(common.VERIF + "/spec/FaultPlans.tla", cfg, os.path.join(workdir, "tlc-plans"), workers=1, timeout=1200)
    plans = []
    for tag, v in tlc.tagged(r.text, ("PLAN",)):
        plan, cut, d = v
        plans.append({"faults": sorted(plan, key=lambda p: (p["dir"], p["k"])), "cut": cut, "delay": d})
    return r, plans


def link_faults(plan, a=1, b=2):
    """FaultPlans plan -> run_d `faults` object for a transfer from entity a to entity b"""
    out = {}
    for p in plan["faults"]:
        link = "%d-%d" % ((a, b) if p["dir"] == "fwd" else (b, a))
        e = {"k": p["k"], "a": p["a"]}
        if p["a"] == "delay":
            e["d"] = plan["delay"]
        out.setdefault(link, {"at": []})["at"].append(e)
    if plan["cut"]["dir"] != "none":
        link = "%d-%d" % ((a, b) if plan["cut"]["dir"] == "fwd" else (b, a))
        out.setdefault(link, {"at": []})["blackout_after"] = plan["cut"]["after"]
    return out


def single(id, cfg, mode, plan, cmds=(), file=(1, 2, 0), horizon=90000, fsreqs=None, isfile=True, seed=0):
    put = {"at": 0, "from": 1, "to": 2, "file": list(file), "mode": mode, "isfile": isfile}
    if fsreqs:
        put["fsreqs"] = fsreqs
    return {"id": id, "seed": seed, "entities": [1, 2], "cfg": cfg, "puts": [put], "faults": link_faults(plan),
            "cmds": list(cmds), "strays": [], "horizon": horizon}


NOPLAN = {"faults": [], "cut": {"dir": "none", "after": 0}, "delay": 0}


def family_plans(plans, tier, variants):
    """one transfer under every fault plan, for each (name, cfg overrides, mode)"""
    out = []
    for name, over, mode in variants:
        for i, p in enumerate(plans):
            out.append(single("%s-p%d" % (name, i), dcfg(**over), mode, p))
    return out


def family_cmds(tier, variants, cmdsets, times, plans=()):
    out = []
    for name, over, mode in variants:
        for cn, cs in cmdsets:
            for t in times:
                for pi, p in enumerate([NOPLAN] + list(plans)):
                    cmds = []
                    for j, (ent, c, dt) in enumerate(cs):
                        cmds.append({"at": (t + dt) * 1000, "entity": ent, "put": 0, "c": c})
                    out.append(single("%s-%s-t%d-p%d" % (name, cn, t, pi), dcfg(**over), mode, p, cmds=cmds))
    return out


def strays_for(rnd, ents, puts, reflect=False):
    """stray / replayed PDUs.  Ids of real transactions are only used towards the two entities that take
    part in that transaction (the hook events identify a transaction by its id, not by the entity);
    everything else uses ids nobody handed out."""
    out = []
    kinds_unknown = [("ACK", "ToSender"), ("Finished", "ToSender"), ("NAK", "ToSender"), ("KeepAlive", "ToSender"),
                     ("Data", "ToReceiver"), ("EOF", "ToReceiver"), ("Metadata", "ToReceiver"), ("Prompt", "ToReceiver")]
    for _ in range(rnd.randint(2, 5)):
        k, d = rnd.choice(kinds_unknown)
        to = rnd.choice(ents)
        src = rnd.choice(ents + [9])            # 9: an entity nobody has a transport for
        out.append({"to": to, "at": rnd.choice([0, 1000, 3000, 8000, 20000]),
                    "pdu": {"k": k, "of": rnd.choice(["EOF", "Finished"]), "src": src, "seq": rnd.randint(30, 40), "dir": d,
                            "dst": to if d == "ToReceiver" else src, "mode": rnd.choice(["ack", "unack"])}})
    seqs = {}
    for p in sorted(puts, key=lambda p: p["at"]):
        n = seqs.get(p["from"], 0)
        seqs[p["from"]] = n + 1
        if rnd.random() < 0.4:
            # a PDU of a transaction of SOMEBODY ELSE (entity 9 has no transactions here) whose sequence number equals
            # that of a live local send transaction: entities count independently, so equal numbers are normal
            k = rnd.choice(["Finished", "ACK", "NAK", "KeepAlive"])
            out.append({"to": p["from"], "at": p["at"] + rnd.choice([0, 1000, 2000, 4000]),
                        "pdu": {"k": k, "of": "EOF", "src": 9, "seq": n, "dir": "ToSender", "dst": p["to"], "mode": p["mode"]}})
        if rnd.random() < 0.5:
            continue
        which = rnd.choice(["ackfin_to_receiver", "nak_to_sender", "own_id_back", "late_data", "finished_to_sender"])
        # a replay of a PDU of this transaction cannot precede the transaction itself
        at = p["at"] + rnd.choice([1000, 2000, 6000, 15000, 30000])
        base = {"src": p["from"], "seq": n, "dst": p["to"], "mode": p["mode"]}
        if which == "ackfin_to_receiver":
            out.append({"to": p["to"], "at": at, "pdu": dict(base, k="ACK", of="Finished", dir="ToReceiver")})
        elif which == "nak_to_sender":
            out.append({"to": p["from"], "at": at, "pdu": dict(base, k="NAK", dir="ToSender")})
        elif which == "own_id_back" and not reflect:
            out.append({"to": p["from"], "at": at, "pdu": dict(base, k="Metadata", dir="ToReceiver")})
        elif which == "own_id_back":
            # one of the entity's own PDUs turned around; the fractions of a second fall between the end of a send task and
            # the daemon's next clean-up tick (closed but not yet reaped channel).  Only in daemon-only scenarios: the
            # transaction model counts whole seconds.
            for dt in rnd.sample([300, 700, 1500, 2500, 4500, 6500, 8500, 12500], 3):
                out.append({"to": p["from"], "at": p["at"] + dt, "pdu": dict(base, k=rnd.choice(["Metadata", "EOF", "Data"]), dir="ToReceiver")})
        elif which == "late_data":
            out.append({"to": p["to"], "at": at, "pdu": dict(base, k="Data", dir="ToReceiver")})
        else:
            out.append({"to": p["from"], "at": at, "pdu": dict(base, k="Finished", dir="ToSender")})
    return out


def family_multi(tier, seed, n):
    """several daemons, overlapping transactions in both directions and mixed modes, random loss, stray PDUs"""
    rnd = random.Random(seed)
    out = []
    for i in range(n):
        ents = [1, 2, 3] if i % 2 == 0 else [1, 2]
        puts = []
        nput = rnd.randint(4, 8)
        for j in range(nput):
            a = rnd.choice(ents)
            b = rnd.choice([e for e in ents if e != a])
            size = rnd.choice([0, 1, 2, 3, 4, 5])
            puts.append({"at": rnd.choice([0, 0, 0, 1000, 2000, 5000]), "from": a, "to": b,
                         "file": [rnd.choice([0, 1, 2]) for _ in range(size)], "mode": rnd.choice(["ack", "ack", "unack"])})
        # a late transfer: the daemons must still be serving after everything else
        puts.append({"at": 60000, "from": ents[0], "to": ents[1], "file": [1, 1, 2], "mode": "ack"})
        faults = {}
        for a in ents:
            for b in ents:
                if a != b and rnd.random() < 0.7:
                    faults["%d-%d" % (a, b)] = {"at": [{"k": rnd.randint(1, 12), "a": rnd.choice(["drop", "drop", "dup", "delay"]), "d": rnd.choice([1, 3])}]}
        # every third scenario reflects PDUs at fractions of a second: judged at the daemon level only (DaemonTrace.tla)
        reflect = i % 3 == 2
        strays = strays_for(rnd, ents, puts, reflect)
        cfg = dcfg(limit=3, nakproc=rnd.choice(["def", "imm"]), closure=rnd.choice([False, True]))
        out.append({"id": "multi-%d-%d" % (seed, i), "seed": seed * 1000 + i, "entities": ents, "cfg": cfg, "puts": puts,
                    "faults": faults, "cmds": [], "strays": strays, "horizon": 150000, "daemon_only": reflect})
    # what starts a receive transaction: the FIRST PDU that gets through may be any of them (the leading PDUs of a
    # transfer lost: Metadata only, Metadata and the data, everything but the EOF), next to an undisturbed neighbour
    j = 0
    for mode in ("ack", "unack"):
        for size, lost in ((0, [1]), (1, [1]), (1, [1, 2]), (2, [1, 2]), (2, [1, 2, 3])):
            puts = [{"at": 0, "from": 1, "to": 2, "file": [1, 2, 0][:size], "mode": mode},
                    {"at": 20000, "from": 2, "to": 1, "file": [2, 1], "mode": "ack"}]
            faults = {"1-2": {"at": [{"k": k, "a": "drop", "d": 1} for k in lost]}}
            out.append({"id": "first-%d-%d" % (seed, j), "seed": seed * 1000 + 500 + j, "entities": [1, 2], "cfg": dcfg(limit=3, nakproc="def", closure=False),
                        "puts": puts, "faults": faults, "cmds": [], "strays": [], "horizon": 150000, "daemon_only": False})
            j += 1
    return out


# ---------------------------------------------------------------------------------------------------
def _shard(args):
    k, scen_path, work = args
    raw = os.path.join(work, "raw-%d.ndjson" % k)
    p = subprocess.run([os.path.join(common.BIN, "run_d"), scen_path, raw], stdout=subprocess.PIPE, stderr=subprocess.PIPE, text=True)
    if p.returncode != 0:
        raise common.ToolError("run_d failed: %s" % p.stderr[-2000:])
    with open(raw) as f:
        lines = [json.loads(l) for l in f if l.strip()]
    tr = dconv.convert(lines)
    # scenarios with sub-second events are judged at the daemon level only (the transaction model counts whole seconds)
    skip = set(l["sc"]["id"] for l in lines if l["k"] == "scenario" and l["sc"].get("daemon_only"))
    if skip:
        keep, cur = [], True
        for l in tr:
            if l["a"] == "Reset":
                cur = l["id"].rsplit("-tx", 1)[0] not in skip
            if cur:
                keep.append(l)
        tr = keep
    tpath = os.path.join(work, "trace-%d.ndjson" % k)
    with open(tpath, "w") as f:
        for l in tr:
            f.write(json.dumps(l) + "\n")
    dev = dconv.daemon_events(lines)
    dpath = os.path.join(work, "daemon-%d.ndjson" % k)
    with open(dpath, "w") as f:
        for l in dev:
            f.write(json.dumps(l) + "\n")
    res = {"viol": [], "drift": [], "dviol": [], "ddrift": [], "runs": len([l for l in tr if l["a"] == "Reset"]), "events": len(tr), "devents": len(dev)}
    if tr:
        r = tlc.run(common.VERIF + "/spec/trace/CfdpTrace.tla", common.VERIF + "/spec/trace/CfdpTrace.cfg", os.path.join(work, "tlc-%d" % k),
                    workers=1, xmx="3g", timeout=3600, env={"TRACE": tpath}, jvm=JVM)
        consumed = None
        for tag, v in tlc.tagged(r.text, ("VIOL", "DRIFT", "CONSUMED")):
            if tag == "CONSUMED":
                consumed = v
            elif tag == "VIOL":
                res["viol"].append({"id": v[0], "line": v[1], "tag": v[2], "sig": v[3]})
            else:
                res["drift"].append({"id": v[0], "line": v[1], "action": v[2], "parts": sorted(v[3])})
        if consumed is None or consumed[0] != consumed[1]:
            raise common.ToolError("Level D trace %s not fully consumed: %s\n%s" % (tpath, consumed, "\n".join(r.text.splitlines()[-25:])))
    if dev:
        r = tlc.run(common.VERIF + "/spec/trace/DaemonTrace.tla", common.VERIF + "/spec/trace/DaemonTrace.cfg", os.path.join(work, "tlcd-%d" % k),
                    workers=1, xmx="2g", timeout=3600, env={"TRACE": dpath}, jvm=JVM)
        consumed = None
        for tag, v in tlc.tagged(r.text, ("VIOL", "DRIFT", "CONSUMED")):
            if tag == "CONSUMED":
                consumed = v
            elif tag == "VIOL":
                res["dviol"].append({"id": v[0], "line": v[1], "tag": v[2], "sig": v[3]})
            else:
                res["ddrift"].append({"id": v[0], "line": v[1], "what": v[2], "detail": v[3]})
        if consumed is None or consumed[0] != consumed[1]:
            raise common.ToolError("daemon trace %s not fully consumed: %s\n%s" % (dpath, consumed, "\n".join(r.text.splitlines()[-25:])))
    return res


def run(scenarios, workdir, shards=12):
    os.makedirs(workdir, exist_ok=True)
    shards = max(1, min(shards, (len(scenarios) + 39) // 40))
    parts = [[] for _ in range(shards)]
    for i, s in enumerate(scenarios):
        parts[i % shards].append(s)
    jobs = []
    for k, part in enumerate(parts):
        sp = os.path.join(workdir, "scen-%d.ndjson" % k)
        with open(sp, "w") as f:
            for s in part:
                f.write(json.dumps(s) + "\n")
        jobs.append((k, sp, workdir))
    tot = {"viol": [], "drift": [], "dviol": [], "ddrift": [], "runs": 0, "events": 0, "devents": 0, "scenarios": len(scenarios)}
    with cf.ThreadPoolExecutor(max_workers=shards) as ex:
        for res in ex.map(_shard, jobs):
            for k in ("viol", "drift", "dviol", "ddrift"):
                tot[k] += res[k]
            for k in ("runs", "events", "devents"):
                tot[k] += res[k]
    return tot


def trace_of(workdir, run_id):
    out = []
    for fn in sorted(os.listdir(workdir)):
        if not fn.startswith("trace-"):
            continue
        cur = False
        with open(os.path.join(workdir, fn)) as f:
            for line in f:
                d = json.loads(line)
                if d["a"] == "Reset":
                    cur = d["id"] == run_id
                if cur:
                    out.append(d)
        if out:
            return out
    return out
