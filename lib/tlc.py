"""Running TLC and reading what it prints."""
import os
import re
import shutil
import subprocess
import time

from tlaval import parse

JAR = "/opt/veriftools/tla/tla2tools.jar:/opt/veriftools/tla/CommunityModules-deps.jar"
SPEC = os.environ.get("CFDP_VERIF_ROOT", "/verif") + "/spec"


class TlcError(Exception):
    pass


class TlcResult:
    def __init__(self):
        self.generated = 0
        self.distinct = 0
        self.depth = 0
        self.ok = False            # "No error has been found"
        self.violated = None       # name of a violated invariant / property
        self.text = ""
        self.wall = 0.0
        self.outfile = None
        self.cmd = ""


def run(module, cfg, workdir, workers=4, xmx="4g", timeout=1800, extra=(), env=None,
        jvm=(), simulate=None, deadlock=False):
    """module: path of the .tla file (its directory is cwd); cfg: path of the .cfg"""
    os.makedirs(workdir, exist_ok=True)
    meta = os.path.join(workdir, "states")
    shutil.rmtree(meta, ignore_errors=True)
    out = os.path.join(workdir, "tlc.out")
    libs = os.pathsep.join([SPEC, os.path.join(SPEC, "mc"), os.path.join(SPEC, "trace")])
    tmpd = os.path.join(workdir, "tmp")
    os.makedirs(tmpd, exist_ok=True)
    cmd = ["timeout", str(timeout), "java", "-XX:+UseParallelGC", "-Xmx" + xmx, "-Xss64m", "-Djava.io.tmpdir=" + tmpd]
    cmd += list(jvm)
    cmd += ["-cp", JAR, "-DTLA-Library=" + libs, "tlc2.TLC", "-workers", str(workers),
            "-metadir", meta, "-cleanup", "-noGenerateSpecTE", "-config", cfg]
    if simulate:
        cmd += ["-simulate", simulate]
    if deadlock:
        cmd += ["-deadlock"]
    cmd += list(extra)
    cmd += [module]
    e = dict(os.environ)
    if env:
        e.update(env)
    t0 = time.time()
    with open(out, "w") as f:
        rc = subprocess.call(cmd, cwd=os.path.dirname(module), stdout=f, stderr=subprocess.STDOUT, env=e)
    r = TlcResult()
    r.wall = time.time() - t0
    r.outfile = out
    r.cmd = " ".join(cmd)
    shutil.rmtree(meta, ignore_errors=True)
    with open(out, errors="replace") as f:
        text = f.read()
    r.text = text
    if rc == 124:
        raise TlcError("TLC timed out after %ss: %s" % (timeout, r.cmd))
    m = None
    for m in re.finditer(r"(\d+) states generated, (\d+) distinct states found", text):
        pass
    if m:
        r.generated = int(m.group(1))
        r.distinct = int(m.group(2))
    m = re.search(r"depth of the complete state graph search is (\d+)", text)
    if m:
        r.depth = int(m.group(1))
    r.ok = "No error has been found" in text
    m = re.search(r"Invariant (\S+) is violated", text)
    if m:
        r.violated = m.group(1)
    m2 = re.search(r"Action property (\S+) is violated|Temporal properties were violated", text)
    if m2 and not r.violated:
        r.violated = m2.group(1) or "temporal"
    if not r.ok and not r.violated:
        if "Parsing or semantic analysis failed" in text or "Error:" in text or rc != 0:
            tail = "\n".join(text.splitlines()[-40:])
            raise TlcError("TLC failed (rc=%d): %s\n%s" % (rc, r.cmd, tail))
    return r


_TAG = re.compile(r'^<<\s*"([A-Z_]+)"', re.M)


def tagged(text, tags=None):
    """yield (tag, value-list) for every PrintT(<<"TAG", ...>>) tuple in TLC output"""
    pos = 0
    n = len(text)
    while True:
        m = _TAG.search(text, pos)
        if not m:
            return
        start = m.start()
        # find the balanced end of the tuple
        depth = 0
        i = start
        instr = False
        while i < n:
            c = text[i]
            if instr:
                if c == "\\":
                    i += 1
                elif c == '"':
                    instr = False
            elif c == '"':
                instr = True
            elif text.startswith("<<", i):
                depth += 1
                i += 1
            elif text.startswith(">>", i):
                depth -= 1
                i += 1
                if depth == 0:
                    i += 1
                    break
            i += 1
        chunk = text[start:i]
        pos = i
        tag = m.group(1)
        if tags is None or tag in tags:
            yield tag, parse(chunk)[1:]


def coverage(text):
    """per-action counts from -coverage output: {action: (distinct, generated)}"""
    out = {}
    for m in re.finditer(r"<(\w+) line \d+, col \d+ to line \d+, col \d+ of module (\w+)>: (\d+):(\d+)", text):
        out[m.group(1)] = (int(m.group(3)), int(m.group(4)))
    return out
