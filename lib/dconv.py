"""Level D: raw hook/network event logs of real daemons (harness run_d) -> one specification
trace per transaction, in exactly the format of the Level T traces, so that the same TLC trace
specification (CfdpTrace.tla) validates executions of the real Daemon: property monitor +
conformance with the model.

The conversion is bookkeeping only: grouping events by transaction id, cutting them into steps at
the loop-top snapshots, and inserting Tick lines where virtual time advanced."""
import copy
import json

CMD = {"cancel": "Cancel", "suspend": "Suspend", "resume": "Resume"}


def dead():
    return {"alive": False, "why": "ended"}


class Tx:
    def __init__(self, sid, key, put, cfg, scen):
        self.key = key
        self.put = put
        self.lines = []
        self.S = None          # last snapshot
        self.R = None
        self.salive = False
        self.ralive = False
        self.rinc = 0
        self.last_t = 0        # ms
        self.open = {"S": None, "R": None}
        self.pre = {"S": [], "R": []}
        self.fs = {"dest": {"st": "absent", "len": 0}, "tree": dict(cfg.get("pre", {}))}
        self.inflight = 0
        c = dict(cfg)
        c["mode"] = put.get("mode", "ack")
        c["file"] = put.get("file", [])
        c["isfile"] = put.get("isfile", True)
        c["fsreqs"] = put.get("fsreqs", []) or []
        c["level"] = "D"
        self.cfg = c
        self.id = "%s-tx%d.%d" % (sid, key[0], key[1])
        self.reset_done = False
        self.i = 0

    def snapS(self):
        return copy.deepcopy(self.S) if (self.S and self.salive) else dead()

    def snapR(self):
        return copy.deepcopy(self.R) if (self.R and self.ralive) else dead()

    def emit(self, a, **kw):
        self.i += 1
        line = {"i": self.i, "t": self.last_t // 1000, "a": a, "ch": "", "idx": 0, "d": 0, "c": "", "res": "ok",
                "out": [], "ind": [], "pin": {"k": "None"},
                "S": self.snapS(), "R": self.snapR(), "salive": self.salive, "ralive": self.ralive, "rinc": self.rinc,
                "dest": self.fs["dest"], "tree": self.fs["tree"],
                "nc2r": max(self.inflight, 0), "nc2s": 0}
        line.update(kw)
        self.lines.append(line)

    def tick_to(self, t):
        if t <= self.last_t:
            return
        # the model's clock counts whole seconds: fractions (events at x.3 s, x.7 s) accumulate until they make one
        d = (t - self.last_t) // 1000
        if not self.reset_done:
            self.last_t = t
            return
        if d == 0:
            return
        self.last_t += d * 1000
        for snap in (self.S, self.R):
            if not snap:
                continue
            for k in ("tAck", "tInact", "tNak"):
                if k in snap and snap[k]["run"]:
                    snap[k]["el"] += d
            for x in snap.get("delayed", []):
                if x["c"]["run"]:
                    x["c"]["el"] += d
            if snap.get("until", -1) >= 0:
                snap["until"] = max(snap["until"] - d, 0)
        self.emit("Tick", d=d)


def convert(raw_lines):
    """raw_lines: iterable of dicts of one run_d output file -> list of trace lines (all transactions)"""
    out = []
    txs = {}
    scen = None
    put_count = {}
    last_t = 0

    def flush():
        for tx in txs.values():
            if not tx.reset_done:
                continue
            # entities still alive at the horizon: let the time pass so that idleness is judged
            tx.tick_to(last_t)
            out.append({"a": "Reset", "id": tx.id, "cfg": tx.cfg, "ind": tx.reset_ind, "steps": len(tx.lines)})
            out.extend(tx.lines)

    for ev in raw_lines:
        k = ev["k"]
        if k == "scenario":
            flush()
            txs = {}
            scen = ev["sc"]
            put_count = {}
            last_t = 0
            continue
        last_t = max(last_t, ev.get("t", 0))
        if k == "put":
            ent = ev["ent"]
            n = put_count.get(ent, 0)
            put_count[ent] = n + 1
            mine = sorted([p for p in scen["puts"] if p["from"] == ent], key=lambda p: p.get("at", 0))
            if n < len(mine):
                key = tuple(ev["tx"])
                txs[key] = Tx(scen["id"], key, mine[n], scen["cfg"], scen)
                txs[key].last_t = ev["t"]
            continue
        key = tuple(ev["tx"]) if isinstance(ev.get("tx"), list) else None
        tx = txs.get(key)
        if tx is None:
            continue
        t = ev["t"]
        if k == "net":
            a = ev["action"].get("a", "pass")
            ch = "c2r" if ev["from"] == tx.put["from"] else "c2s"
            if a in ("drop", "dup"):
                tx.tick_to(t)
                tx.emit("Drop" if a == "drop" else "Dup", ch=ch, idx=1)
            elif a == "delay":
                tx.inflight += 1
            continue
        if k == "net_release":
            tx.inflight -= 1
            continue
        role = ev.get("role")
        if k == "task_start":
            tx.tick_to(t)
            if role == "S":
                tx.salive = True
            else:
                tx.ralive = True
                tx.rinc += 1
                tx.R = None
            continue
        if k == "enter":
            what = ev["what"]
            if tx.open[role] is not None:
                continue            # nested call inside a step (e.g. suspend() called by a fault handler)
            if what == "send_report" and ev["arg"] == 0:
                continue            # the task's own first/last report: only its indication matters
            tx.tick_to(t)
            st = {"out": [], "ind": []}
            if what == "send_pdu":
                st["a"] = role + "_Send"
            elif what == "process_pdu":
                st.update(a="Deliver", ch="c2r" if role == "R" else "c2s", idx=1, pin=ev["pdu"] or {"k": "None"})
                st["ind"] = tx.pre[role]
                tx.pre[role] = []
            elif what == "handle_timeout":
                st["a"] = role + "_Timeout"
            elif what in CMD:
                st.update(a=role + "_Cmd", c=CMD[what])
            elif what == "prepare_prompt":
                st.update(a="S_Cmd", c="PromptNak" if ev["arg"] == 0 else "PromptKeepAlive")
            elif what == "send_report":
                st.update(a=role + "_Cmd", c="Report")
            tx.open[role] = st
            continue
        if k == "out":
            st = tx.open[role]
            if st is not None:
                p = dict(ev["pdu"])
                p["dir"] = "c2r" if role == "S" else "c2s"
                st["out"].append(p)
            continue
        if k == "ind":
            st = tx.open[role]
            (st["ind"] if st is not None else tx.pre[role]).append(ev["ind"])
            continue
        if k == "loop":
            snap = ev["snap"]
            snap["alive"] = True
            ended = snap.get("txs") == "Term"
            if role == "S":
                tx.S = snap
                if ended:
                    tx.salive = False
            else:
                tx.R = snap
                if ended:
                    tx.ralive = False
            tx.fs = ev["fs"]
            tx.inflight = ev.get("inflight", tx.inflight)
            st = tx.open[role]
            tx.open[role] = None
            if not tx.reset_done and role == "S":
                tx.reset_done = True
                tx.reset_ind = tx.pre["S"]
                tx.pre["S"] = []
                if st is None:
                    continue
            if st is not None:
                a = st.pop("a")
                tx.emit(a, **st)
            continue
        if k == "task_end":
            if role == "S":
                tx.salive = False
            else:
                tx.ralive = False
            # a task that ended without a closing loop event (Err / panic): close the open step
            st = tx.open[role]
            tx.open[role] = None
            if st is not None and tx.reset_done:
                a = st.pop("a")
                tx.emit(a, **st)
            continue
    flush()
    return out


def convert_file(raw_path, trace_path):
    with open(raw_path) as f:
        lines = [json.loads(l) for l in f if l.strip()]
    tr = convert(lines)
    with open(trace_path, "w") as f:
        for l in tr:
            f.write(json.dumps(l) + "\n")
    return len([l for l in tr if l["a"] == "Reset"]), len(tr)


if __name__ == "__main__":
    import sys
    print(convert_file(sys.argv[1], sys.argv[2]))


def daemon_events(raw_lines):
    """raw log -> records for DaemonTrace.tla (daemon layer: put / route / task / reap / alive)"""
    out = []
    where = {}      # tx key -> entity of its receive task
    for ev in raw_lines:
        k = ev["k"]
        if k == "scenario":
            if out:
                out.append({"k": "horizon", "n": 10 ** 6})
            sc = ev["sc"]
            out.append({"k": "scenario", "id": sc["id"], "entities": sc["entities"], "n": 0})
            where = {}
            puts = {}
            continue
        n = ev.get("n", 0)
        if k == "put":
            out.append({"k": "put", "ent": ev["ent"], "tx": ev["tx"], "n": n})
        elif k == "user_put":
            where[tuple(ev["tx"])] = ev["to"]
        elif k == "route":
            rec = {"k": "route", "ent": ev["ent"], "tx": ev["tx"], "dir": "ToSender" if ev["to_sender"] else "ToReceiver",
                   "peer": ev["peer"], "outcome": ev["outcome"], "n": n}
            if ev["outcome"] == "closed" and out and out[-1]["k"] == "route" and out[-1]["outcome"] == "occupied" \
                    and out[-1]["ent"] == ev["ent"] and out[-1]["tx"] == ev["tx"]:
                out.pop()
            # where the receive task of this id runs: the entity that spawns it.  ("closed" is also what the hook reports for
            # a PDU reflected to the entity whose own SEND task of that id has ended: no receive task starts there.)
            if ev["outcome"] == "spawn_recv" and not ev["to_sender"]:
                where[tuple(ev["tx"])] = ev["ent"]
            elif ev["outcome"] == "closed" and not ev["to_sender"]:
                where.setdefault(tuple(ev["tx"]), ev["ent"])
            out.append(rec)
        elif k in ("task_start", "task_end"):
            key = tuple(ev["tx"])
            ent = ev["tx"][0] if ev["role"] == "S" else where.get(key, -1)
            out.append({"k": k, "ent": ent, "tx": ev["tx"], "role": ev["role"], "panicking": ev.get("panicking", False), "n": n})
        elif k == "reap":
            out.append({"k": "reap", "ent": ev["ent"], "tx": ev["tx"] or [-1, -1], "ok": ev["ok"], "n": n})
        elif k == "enter" and ev.get("what") == "process_pdu" and ev.get("hid"):
            out.append({"k": "deliver", "tx": ev["tx"], "hid": ev["hid"], "role": ev["role"], "n": n})
        elif k == "daemon_exit":
            out.append({"k": "daemon_exit", "ent": ev["ent"], "n": n})
        elif k == "daemon_alive":
            out.append({"k": "daemon_alive", "ent": ev["ent"], "alive": ev["alive"], "n": n})
    if out:
        out.append({"k": "horizon", "n": 10 ** 6})
    return out
