#!/usr/bin/env python3
"""Regenerates /verif/MANIFEST.json from the table below (single source of truth)."""
import json
import subprocess

HOOK_COMMITS = ["541dbbc"]

CHECKS = {
    "C09": dict(
        engine="tlc-segments",
        category="model_checking",
        technique="TLA+ spec Segments.tla model-checked by TLC; its complete state graph replayed path-by-path into the real Segments object",
        text="Segments.tla specifies the bookkeeping as 'set of byte positions'; TLC checks the laws of the operators (progress = cardinality, "
             "completeness, gaps = maximal uncovered runs) and emits the complete reachable graph for a universe of M positions; every path of the graph up to "
             "a depth is executed on the real Segments and every return value (merge, is_complete for every n, gaps for every window, stored ranges) compared, "
             "also under stretched coordinate maps reaching 2^64-1. Bounded-exhaustive refinement check of the real structure.",
        design_ref="DESIGN.md 6.9",
        note="Trusted: TLC, the TLA+ value parser, the coordinate map of the harness. Bounds: M=6/depth 4 (quick), M=8/depth 5 (thorough).",
    ),
    "C14": dict(
        engine="tlc-small",
        category="model_checking",
        technique="TLA+ spec Checksum.tla (definition vs chunk-fed accumulator) model-checked by TLC; every chunking replayed through the real checksum(); recorded results validated by TLC (ChecksumTrace.tla)",
        text="TLC proves, for every length <= N and every chunking into reads of 1..K bytes, that the carried-remainder accumulator equals the definition Sum; the (length, position, chunk) "
             "graph it prints is walked on the real FileChecksum::checksum behind a scripted Read+Seek (every composition, pattern and seeded random content, displaced cursors, lengths "
             "straddling 8 KiB); every distinct (content, result) pair recorded from the code is judged by TLC against Sum. Null must be 0.",
        design_ref="DESIGN.md 6.14",
        note="Trusted: TLC's evaluation of Sum (two 16-bit lanes), the scripted reader. Contents beyond the enumerated lengths are sampled (seeded), not exhausted.",
    ),
    "C16": dict(
        engine="tlc-small",
        category="model_checking",
        technique="TLA+ spec Transport.tla (reused receive buffer with tagged cells) model-checked by TLC; every behaviour replayed over a real UdpTransport on loopback",
        text="TLC checks NoStaleBytes/TruncatedRejected/CompleteAccepted for the decode-own-bytes design over the real encoded lengths of a corpus of every PDU kind (CRC on/off) and refutes "
             "them for the decode-whole-buffer design (non-vacuity); every behaviour (complete datagram, then every truncation of every datagram) is sent over 127.0.0.1 to a real "
             "UdpTransport and the outcome of receive() compared with the model's.",
        design_ref="DESIGN.md 6.16",
        note="Trusted: loopback UDP ordering; corpus of 20 datagrams; depth 2 (quick) / 3 on a sub-corpus (thorough).",
    ),
}

NOT_YET = {}


def main():
    props = [json.loads(l) for l in open("/verif/properties.jsonl")]
    checks = []
    na = []
    for p in props:
        pid = p["id"]
        if pid in CHECKS:
            c = CHECKS[pid]
            checks.append({
                "property_id": pid,
                "quick_cmd": "bin/check %s --tier quick" % pid,
                "thorough_cmd": "bin/check %s --tier thorough" % pid,
                "evidence_file": "/verif/evidence/%s.json" % pid,
                "replay_cmd_template": "bin/check %s --replay {path}" % pid,
                "engine": c["engine"],
                "level_claimed": {"category": c["category"], "text": c["text"], "design_ref": c["design_ref"]},
                "level_note": c["note"],
                "technique": c["technique"],
            })
        else:
            na.append({"property_id": pid, "reason": NOT_YET.get(pid, "check under construction in this session: not claimed until its TLA+ model and conformance harness are committed")})
    engines = {}
    for pid, c in CHECKS.items():
        engines.setdefault(c["engine"], []).append(pid)
    m = {
        "version": 1,
        "setup_cmd": "bin/check setup",
        "hooks": {
            "guard": "cfdp_verif",
            "enable": "RUSTFLAGS='--cfg cfdp_verif --cfg tokio_unstable' (set in /verif/harness/.cargo/config.toml; the harness depends on /repo/cfdp-core and /repo/cfdp-daemon by path)",
            "baseline_off_cmd": "cd /repo && cargo test --workspace --no-fail-fast --offline",
            "source_commits": HOOK_COMMITS,
            "add_only": False,
        },
        "engines": [{"name": k, "path": "/verif/spec", "serves_properties": sorted(v),
                     "kind_free_text": "explicit TLA+ specification checked with TLC, bound to the Rust code by replay / trace validation"} for k, v in sorted(engines.items())],
        "checks": checks,
        "not_applicable": na,
        "notes": "hooks.add_only=false: one `use` line of timer.rs and one match arm of lib.rs were rewritten under the guard; everything else is added code.",
    }
    with open("/verif/MANIFEST.json", "w") as f:
        json.dump(m, f, indent=1)
    print("MANIFEST: %d checks, %d not_applicable" % (len(checks), len(na)))


if __name__ == "__main__":
    main()
