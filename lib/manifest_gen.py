#!/usr/bin/env python3
"""Regenerates /verif/MANIFEST.json from the table below (single source of truth)."""
import json
import subprocess

FAM_NOTE = ("Trusted: TLC and the community modules, the projector (harness/src/proj.rs), tokio's paused clock; assumptions A1 (timers are serviced before the "
            "next deadline) and A2 (local steps are urgent), timeouts >= 1 s, segment size >= 16 bytes. Bounds per configuration in spec/mc/configs.json "
            "(files of 0-5 units, 1 fault of any kind or 2 cheap faults quick / one more thorough, limit 2-3); Level D fault plans from FaultPlans.tla (F = 1 quick / 2 thorough). "
            "C17 and C03 also run the Apalache lemma TimerInd.tla (unbounded inductive invariant of the counter).")

FAM_TECH = ("explicit TLA+ model Cfdp.tla (Sender + Receiver + link + clock + users + adversary) model-checked by TLC with the property monitor Props.tla (safety on every "
            "step; termination / success under fairness where they apply); every edge of the bounded state graph replayed on the real transaction objects (Level T) and "
            "TLC-enumerated fault plans run on real Daemons (Level D); every recorded step validated by TLC (CfdpTrace.tla: property monitor + conformance with the model); "
            "where the code leaves the model (DRIFT) TLC continues the model from the recorded real state (Contin.tla) and its counterexamples are replayed on the real code")

FAM_TAIL = (" The verdict is TLC's evaluation of the Props.tla predicates on events recorded from the real code; TLC evaluates the same predicates on every step of "
            "the exhaustively explored model, and CfdpTrace.tla compares every real step with the model's prediction, so the exhaustive result transfers wherever "
            "no DRIFT is reported.")


def fam(what, ref):
    return dict(engine="tlc-cfdp", category="model_checking", technique=FAM_TECH, text=what + FAM_TAIL, design_ref=ref, note=FAM_NOTE)


CHECKS = {
    "C01": fam("Monitor tag C01:DeliveredIsSource: whenever either user sees Finished(NoError, Complete, Retained) the destination file read back by the projector equals "
               "the source, under every interleaving of sender, receiver, link faults and ticks of the bounded configurations (both modes, closure, immediate/deferred NAK, "
               "delay, Null checksum, checksum-neutral content, byte-granular ragged sizes). One recorded finding (unacknowledged mode) is reported as KNOWN-FINDING.", "DESIGN.md 6.1"),
    "C02": fam("Monitor tag C02:RecoversOK: when both transactions have ended and fewer link faults than the limit occurred (no cancel, no long suspension) both users saw "
               "a successful delivery and the file equals the source; that the end is reached is C03's bound.", "DESIGN.md 6.2"),
    "C03": fam("Monitor tags C03:IdleBound (a live, non-excused entity is never idle longer than the bound fixed by its timeouts and limit since the last PDU delivered to it; "
               "blackouts of either direction at every point) and C03:NoSpin (a timeout handler never leaves the loop's sleep at zero).", "DESIGN.md 6.3"),
    "C04": fam("Monitor tags C04:FileChanged / RequestsRedone / IntegrityFaultAfterDelivery / SenderSuccessWithoutDelivery after the receiver's first success indication, "
               "under duplication, reordering and delay of every PDU, including non-idempotent filestore requests (request-only transactions in all modes). Consequences of the "
               "recorded unacknowledged-mode finding (a respawned receiver delivering again) are reported as KNOWN-FINDING.", "DESIGN.md 6.4"),
    "C07": fam("Monitor tags C07:Header / DataContent / UnsolicitedData / NakNotAnswered / MetadataWrong / EofWrong / EofBeforeData over every PDU the sender hands to the transport (bytes "
               "compared with the source by the projector; every data PDU is the next first-pass tile or a pending NAK piece), including adversarial NAK lists "
               "(overlapping, empty, inverted, beyond EOF).", "DESIGN.md 6.7"),
    "C08": fam("Monitor tags C08:NakWellFormed / DeferredQuiet / NakCoversMissing / NakAsksForHeld over every NAK the receiver emits, against the set of bytes the link "
               "actually delivered to it.", "DESIGN.md 6.8"),
    "C09": dict(
        engine="tlc-segments", category="model_checking",
        technique="TLA+ spec Segments.tla model-checked by TLC; its complete state graph replayed path-by-path into the real Segments object",
        text="Segments.tla specifies the bookkeeping as 'set of byte positions'; TLC checks the laws of the operators (progress = cardinality, completeness, gaps = maximal "
             "uncovered runs) and emits the complete reachable graph for a universe of M positions; every path of the graph up to a depth is executed on the real Segments "
             "and every return value (merge, is_complete for every n, gaps for every window, stored ranges) compared, also under stretched coordinate maps reaching 2^64-1. "
             "Bounded-exhaustive refinement check of the real structure.",
        design_ref="DESIGN.md 6.9", note="Trusted: TLC, the TLA+ value parser, the coordinate map of the harness. Bounds: M=6/depth 4 (quick), M=8/depth 5 (thorough)."),
    "C10": fam("Monitor tags C10:NoPartialFile / DeliveredAfterCancel / CancelEnds / CancelReported with a user cancel at either entity at every point, single losses and blackouts, both modes, "
               "closure on/off.", "DESIGN.md 6.10"),
    "C11": dict(
        engine="tlc-daemon", category="model_checking",
        technique="TLA+ spec Daemon.tla model-checked by TLC; hook events of 2-3 real Daemons validated by TLC (DaemonTrace.tla: routing conformance + C11 predicates) and every "
                  "transaction by CfdpTrace.tla",
        text="Daemon.tla: sequence numbers, routing by (source, seq), spawning / reaping; TLC checks IdsDistinct, DaemonAlive, RoutingSafe, NoSendFromStray under arbitrary "
             "stray headers. Real daemons on one paused runtime run overlapping transfers in both directions and mixed modes with seeded faults and stray / replayed PDUs; "
             "DaemonTrace.tla judges ids, daemon survival, termination of every task (also stray-started ones) and compares every routing decision with Daemon!Route; per "
             "transaction the C01/C02/C04 predicates of the monitor decide 'own file, own outcome'.",
        design_ref="DESIGN.md 6.11", note="Seeded random scenarios (not exhaustive) at the daemon level; in-memory transport; one runtime thread."),
    "C12": dict(
        engine="tlc-filestore", category="model_checking",
        technique="TLA+ spec Paths.tla (name resolution below the root) model-checked by TLC; every name of its graph walked through get_native_path and every filestore "
                  "operation in a sentinel jail",
        text="TLC checks Contained for every name = start (relative, absolute, root-prefixed, sibling-prefixed) + up to L components over {a, b, '.', '..', ''}; the harness "
             "walks all of them in several spellings through the real get_native_path and 14 groups of operations inside a jail; VIOLATION = native path outside the root or "
             "anything outside the root created, changed, deleted or opened.",
        design_ref="DESIGN.md 6.12", note="The harness process chroots into a scratch directory of its own before it touches the filestore, so that every escape - relative or absolute - lands "
                                    "in watched territory and nothing else can be reached (without the privilege: names resolving outside the scratch area are reported, not acted on); "
                                    "the walk stops once 20 violations are recorded; no symlinks."),
    "C13": dict(
        engine="tlc-filestore", category="model_checking",
        technique="TLA+ spec Filestore.tla model-checked by TLC; its labelled state graph walked on a real NativeFileStore; end-to-end part through Cfdp.tla / Props.tla "
                  "(C13 tags) at Level T and D",
        text="Part 1: Filestore.tla defines status and effect of the nine requests as a function of the filesystem state; TLC checks FailureChangesNothing and FailTheRest and "
             "prints the graph of all request sequences up to a depth over {2 files, a directory with an entry, free names}; every sequence is executed on a real temp tree, "
             "status octet and whole tree compared. Part 2: tags C13:RequestsOutsideDelivery / ResponsesDiffer of the transaction monitor (requests run once, only at the "
             "successful delivery - never by a cancelled transaction that later becomes complete -, one response per request, same responses at both users and in the Finished PDU). Consequences of the recorded unacknowledged-mode finding are "
             "reported as KNOWN-FINDING.",
        design_ref="DESIGN.md 6.13", note="Status codes follow the code base and its own tests (Deny of a missing name = NotAllowed). Local POSIX filesystem without permission faults."),
    "C14": dict(
        engine="tlc-small", category="model_checking",
        technique="TLA+ spec Checksum.tla (definition vs chunk-fed accumulator) model-checked by TLC; every chunking replayed through the real checksum(); recorded results "
                  "validated by TLC (ChecksumTrace.tla)",
        text="TLC proves, for every length <= N and every chunking into reads of 1..K bytes, that the carried-remainder accumulator equals the definition Sum; the (length, "
             "position, chunk) graph it prints is walked on the real FileChecksum::checksum behind a scripted Read+Seek (every composition, pattern and seeded random content, "
             "displaced cursors, lengths straddling 8 KiB, and every chunking of the short files behind a reader whose j-th read FAILS - Checksum!Contract: an error or the sum of the "
             "whole content, never the sum of a prefix); every distinct (content, result) pair recorded from the code is judged by TLC against Sum. Null must be 0.",
        design_ref="DESIGN.md 6.14", note="Trusted: TLC's evaluation of Sum (two 16-bit lanes), the scripted reader. Contents beyond the enumerated lengths are sampled (seeded)."),
    "C16": dict(
        engine="tlc-small", category="model_checking",
        technique="TLA+ spec Transport.tla (reused receive buffer with tagged cells) model-checked by TLC; every behaviour replayed over a real UdpTransport on loopback",
        text="TLC checks NoStaleBytes / TruncatedRejected / CompleteAccepted for the decode-own-bytes design over the real encoded lengths of a corpus of every PDU kind (CRC "
             "on/off) and refutes them for the decode-whole-buffer design (non-vacuity); every behaviour (complete datagram, then every truncation of every datagram) is sent "
             "over 127.0.0.1 to a real UdpTransport and the outcome of receive() compared with the model's.",
        design_ref="DESIGN.md 6.16", note="Trusted: loopback UDP ordering; corpus of 20 datagrams; depth 2 (quick) / 3 on a sub-corpus (thorough)."),
    "C17": fam("Monitor tags C17:FaultExact (a limit fault only after `limit` transmissions spaced by at least the timeout, counts reset by progress) and "
               "C17:HandlerAsConfigured (ignore / suspend / abandon / cancel), over timeout grids, blackouts and every handler map - for the limit faults and, with an adversarial peer that sends an EOF "
               "with a foreign checksum or a wrong size, for FileChecksumFailure and FilesizeError in both modes.", "DESIGN.md 6.17"),
    "C18": fam("Monitor tags C18:OneWay / EndsOnEof / ClosureFinished / ClosureTruthful / ClosureSenderWaits / ClosureReported / IncompleteNotComplete in unacknowledged mode "
               "with closure on/off. One recorded finding (the unacknowledged receiver has no completeness test) is reported as KNOWN-FINDING.", "DESIGN.md 6.18"),
    "C19": fam("Monitor tags C19:QuietWhileSuspended / NoFaultWhileSuspended / TimersFrozen with suspend and resume at either entity at every point; completion after resume through "
               "C02:RecoversOK.", "DESIGN.md 6.19"),
    "C20": fam("Monitor tags C20:ReceiverProgress (= number of distinct bytes the link delivered) / SenderProgress (= highest first-pass offset emitted) on KeepAlive PDUs "
               "and Fault / Resumed / Abandon indications, with prompts and suspend/resume at every point.", "DESIGN.md 6.20"),
}

WIRE_NOTE = ("Trusted: TLC, the TLA+ value parser, the harness instantiation of shapes / templates (harness/src/bin/wire.rs), catch_unwind as the observer of panics "
             "(harness built with overflow checks and debug assertions). Continuous field values are seeded samples; the discrete structure is enumerated exhaustively.")
CHECKS.update({
    "C05": dict(
        engine="tlc-wire", category="model_checking",
        technique="TLA+ specifications Wire.tla (header bit layout, framing, data-field length per PDU shape) and UserOps.tla (field templates of the 26 reserved user "
                  "operations and the status report) enumerated and law-checked by TLC; every shape / template instantiated on the real codec and compared with the specification",
        text="TLC enumerates the discrete shape space of every PDU kind (flags, id widths 1/2/4/8, file-size flag, CRC, TLV kinds, counts, boundary lengths) and of every user "
             "operation (every value of every packed field; list lengths 0-3 and, for Finished responses and NAK requests, 127-129 and 255-257 items), checks the layout laws (LengthsFit, HeaderRoundTrip, NibRoundTrip, OctetsOk) and prints each shape with its predicted "
             "lengths / header octets / field template. The harness builds a real value (or the octets of the template) per shape and demands encoded_len = |encode| = the "
             "specified length, header octets = the specified ones, decode(encode(x)) = x and encode(decode(w)) = w. Exhaustive over the discrete structure, sampled over the "
             "contents of continuous fields.",
        design_ref="DESIGN.md 6.5", note=WIRE_NOTE),
    "C06": dict(
        engine="tlc-wire", category="model_checking",
        technique="TLA+ decoder-arithmetic model in Wire.tla (HeaderDecode / IdDecode with explicit machine ranges) checked by TLC over every first octet x boundary length / "
                  "width octets x bytes available; the same patterns, every truncation and single-octet mutations of every shape's encoding replayed into the real decoders",
        text="TLC checks ArithInRange / IdInRange: no pattern of the attacker-controlled octets makes the decoder's arithmetic leave its machine types (as repaired), and prints the "
             "boundary patterns with the layout's verdict; the harness feeds each pattern, every truncation of every shape's encoding and 5 mutations per sampled position to "
             "PDU::decode, VariableID::decode, UserOperation::decode and Report::decode under catch_unwind: no panic, truncations rejected, and whatever is accepted re-encodes "
             "(length recomputed) and decodes to itself. Structured neighbourhood of valid encodings plus boundary values; not arbitrary byte strings.",
        design_ref="DESIGN.md 6.6", note=WIRE_NOTE + " Allocation bound: the only allocation sized by input is the data field (u16 length) and id / LV fields (u8 length): by the model <= 64 KiB."),
    "C15": dict(
        engine="tlc-wire", category="model_checking",
        technique="TLA+ specification Crc.tla (CRC-16/IBM-3740 bit by bit; detection lemma for single, double, odd and burst errors model-checked by TLC on bounded frames); CRC "
                  "values recorded from the real encoder validated by TLC (CrcTrace.tla); every error pattern of the class applied to real encodings and fed to PDU::decode",
        text="TLC checks on frames of L+2 octets that no single-bit, double-bit (within the window), triple-bit or burst (<= 16) error pattern leaves the CRC unchanged, and judges "
             "the CRC the real encoder appended to short PDUs against the specification's value. For every CRC shape of Wire.tla the harness flips every single bit after the 4 "
             "fixed octets, every pair within a 32-bit window, bursts of 2..16 bits and seeded odd patterns, and demands that PDU::decode rejects the datagram or returns the "
             "original PDU (spare bits only); the unaltered datagram must be accepted.",
        design_ref="DESIGN.md 6.15", note=WIRE_NOTE + " The algebraic detection guarantee beyond the bounded frames is a property of the polynomial, not decided by TLC; on real "
                                                      "encodings the patterns are enumerated directly."),
})

NOT_YET = {}


def hook_commits():
    out = subprocess.check_output(["git", "-C", "/repo", "log", "--format=%h %s"]).decode().splitlines()
    return [l.split()[0] for l in out if "verif hooks" in l][::-1]


def main():
    props = [json.loads(l) for l in open("/verif/properties.jsonl")]
    checks = []
    na = []
    for p in props:
        pid = p["id"]
        if pid in CHECKS:
            c = CHECKS[pid]
            checks.append({
                "property_id": pid,
                "quick_cmd": "bin/check %s --tier quick" % pid,
                "thorough_cmd": "bin/check %s --tier thorough" % pid,
                "evidence_file": "/verif/evidence/%s.json" % pid,
                "replay_cmd_template": "bin/check %s --replay {path}" % pid,
                "engine": c["engine"],
                "level_claimed": {"category": c["category"], "text": c["text"], "design_ref": c["design_ref"]},
                "level_note": c["note"],
                "technique": c["technique"],
            })
        else:
            na.append({"property_id": pid, "reason": NOT_YET[pid]})
    engines = {}
    for pid, c in CHECKS.items():
        engines.setdefault(c["engine"], []).append(pid)
    m = {
        "version": 1,
        "setup_cmd": "bin/check setup",
        "hooks": {
            "guard": "cfdp_verif",
            "enable": "RUSTFLAGS='--cfg cfdp_verif --cfg tokio_unstable' (set in /verif/harness/.cargo/config.toml; the harness depends on /repo/cfdp-core and /repo/cfdp-daemon by path)",
            "baseline_off_cmd": "cd /repo && cargo test --workspace --no-fail-fast --offline",
            "source_commits": hook_commits(),
            "add_only": False,
        },
        "engines": [{"name": k, "path": "/verif/spec", "serves_properties": sorted(v),
                     "kind_free_text": "explicit TLA+ specification checked with TLC, bound to the Rust code by replay of TLC-generated behaviours and by TLC trace validation"} for k, v in sorted(engines.items())],
        "checks": checks,
        "not_applicable": na,
        "notes": "hooks.add_only=false: one `use` line of timer.rs and one match arm of lib.rs were rewritten under the guard; everything else in the hook commits is added "
                 "code behind #[cfg(cfdp_verif)] (plus a [lints] entry in cfdp-daemon/Cargo.toml declaring the cfg). Genuine defects repaired as `fix:` commits in /repo are "
                 "listed in /verif/known_findings.json.",
    }
    with open("/verif/MANIFEST.json", "w") as f:
        json.dump(m, f, indent=1)
    print("MANIFEST: %d checks, %d not_applicable, hooks %s" % (len(checks), len(na), m["hooks"]["source_commits"]))


if __name__ == "__main__":
    main()
