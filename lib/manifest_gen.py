#!/usr/bin/env python3
"""Regenerates /verif/MANIFEST.json from the table below (single source of truth)."""
import json
import subprocess

HOOK_COMMITS = ["541dbbc"]

CHECKS = {
    "C09": dict(
        engine="tlc-segments",
        category="model_checking",
        technique="TLA+ spec Segments.tla model-checked by TLC; its complete state graph replayed path-by-path into the real Segments object",
        text="Segments.tla specifies the bookkeeping as 'set of byte positions'; TLC checks the laws of the operators (progress = cardinality, "
             "completeness, gaps = maximal uncovered runs) and emits the complete reachable graph for a universe of M positions; every path of the graph up to "
             "a depth is executed on the real Segments and every return value (merge, is_complete for every n, gaps for every window, stored ranges) compared, "
             "also under stretched coordinate maps reaching 2^64-1. Bounded-exhaustive refinement check of the real structure.",
        design_ref="DESIGN.md 6.9",
        note="Trusted: TLC, the TLA+ value parser, the coordinate map of the harness. Bounds: M=6/depth 4 (quick), M=8/depth 5 (thorough).",
    ),
}

NOT_YET = {}


def main():
    props = [json.loads(l) for l in open("/verif/properties.jsonl")]
    checks = []
    na = []
    for p in props:
        pid = p["id"]
        if pid in CHECKS:
            c = CHECKS[pid]
            checks.append({
                "property_id": pid,
                "quick_cmd": "bin/check %s --tier quick" % pid,
                "thorough_cmd": "bin/check %s --tier thorough" % pid,
                "evidence_file": "/verif/evidence/%s.json" % pid,
                "replay_cmd_template": "bin/check %s --replay {path}" % pid,
                "engine": c["engine"],
                "level_claimed": {"category": c["category"], "text": c["text"], "design_ref": c["design_ref"]},
                "level_note": c["note"],
                "technique": c["technique"],
            })
        else:
            na.append({"property_id": pid, "reason": NOT_YET.get(pid, "check under construction in this session: not claimed until its TLA+ model and conformance harness are committed")})
    engines = {}
    for pid, c in CHECKS.items():
        engines.setdefault(c["engine"], []).append(pid)
    m = {
        "version": 1,
        "setup_cmd": "bin/check setup",
        "hooks": {
            "guard": "cfdp_verif",
            "enable": "RUSTFLAGS='--cfg cfdp_verif --cfg tokio_unstable' (set in /verif/harness/.cargo/config.toml; the harness depends on /repo/cfdp-core and /repo/cfdp-daemon by path)",
            "baseline_off_cmd": "cd /repo && cargo test --workspace --no-fail-fast --offline",
            "source_commits": HOOK_COMMITS,
            "add_only": False,
        },
        "engines": [{"name": k, "path": "/verif/spec", "serves_properties": sorted(v),
                     "kind_free_text": "explicit TLA+ specification checked with TLC, bound to the Rust code by replay / trace validation"} for k, v in sorted(engines.items())],
        "checks": checks,
        "not_applicable": na,
        "notes": "hooks.add_only=false: one `use` line of timer.rs and one match arm of lib.rs were rewritten under the guard; everything else is added code.",
    }
    with open("/verif/MANIFEST.json", "w") as f:
        json.dump(m, f, indent=1)
    print("MANIFEST: %d checks, %d not_applicable" % (len(checks), len(na)))


if __name__ == "__main__":
    main()
