"""Parser for TLA+ values as printed by TLC (PrintT output): ints, strings, booleans,
tuples <<..>>, sets {..}, records [a |-> v, ..], functions (k :> v @@ ..), model values."""


class ParseError(Exception):
    pass


def parse(text):
    p = _P(text)
    v = p.value()
    p.ws()
    if p.i != len(p.s):
        raise ParseError("trailing input at %d: %r" % (p.i, p.s[p.i:p.i + 40]))
    return v


class _P:
    def __init__(self, s):
        self.s = s
        self.i = 0

    def ws(self):
        s = self.s
        n = len(s)
        while self.i < n and s[self.i] in " \t\r\n":
            self.i += 1

    def peek(self, k=1):
        return self.s[self.i:self.i + k]

    def expect(self, tok):
        self.ws()
        if self.s.startswith(tok, self.i):
            self.i += len(tok)
        else:
            raise ParseError("expected %r at %d: %r" % (tok, self.i, self.s[self.i:self.i + 40]))

    def value(self):
        self.ws()
        v = self.atom()
        # function literal chains:  a :> b @@ c :> d
        self.ws()
        if self.peek(2) == ":>":
            d = {}
            k = v
            while True:
                self.expect(":>")
                val = self.atom_or_nested()
                d[_key(k)] = val
                self.ws()
                if self.peek(2) == "@@":
                    self.i += 2
                    self.ws()
                    k = self.atom()
                    self.ws()
                else:
                    break
            return d
        return v

    def atom_or_nested(self):
        self.ws()
        return self.atom()

    def atom(self):
        self.ws()
        s = self.s
        c = self.peek()
        if c == "":
            raise ParseError("unexpected end")
        if s.startswith("<<", self.i):
            self.i += 2
            out = []
            self.ws()
            if s.startswith(">>", self.i):
                self.i += 2
                return out
            while True:
                out.append(self.value())
                self.ws()
                if s.startswith(">>", self.i):
                    self.i += 2
                    return out
                self.expect(",")
        if c == "{":
            self.i += 1
            out = []
            self.ws()
            if self.peek() == "}":
                self.i += 1
                return out
            while True:
                out.append(self.value())
                self.ws()
                if self.peek() == "}":
                    self.i += 1
                    return out
                self.expect(",")
        if c == "[":
            self.i += 1
            d = {}
            self.ws()
            if self.peek() == "]":
                self.i += 1
                return d
            while True:
                self.ws()
                j = self.i
                while self.i < len(s) and (s[self.i].isalnum() or s[self.i] == "_"):
                    self.i += 1
                name = s[j:self.i]
                self.expect("|->")
                d[name] = self.value()
                self.ws()
                if self.peek() == "]":
                    self.i += 1
                    return d
                self.expect(",")
        if c == "(":
            self.i += 1
            v = self.value()
            self.expect(")")
            return v
        if c == '"':
            self.i += 1
            out = []
            while True:
                ch = s[self.i]
                if ch == "\\":
                    out.append(s[self.i + 1])
                    self.i += 2
                elif ch == '"':
                    self.i += 1
                    return "".join(out)
                else:
                    out.append(ch)
                    self.i += 1
        if c == "-" or c.isdigit():
            j = self.i
            self.i += 1
            while self.i < len(s) and s[self.i].isdigit():
                self.i += 1
            lo = int(s[j:self.i])
            if s.startswith("..", self.i):
                self.i += 2
                j = self.i
                if self.peek() == "-":
                    self.i += 1
                while self.i < len(s) and s[self.i].isdigit():
                    self.i += 1
                return list(range(lo, int(s[j:self.i]) + 1))
            return lo
        j = self.i
        while self.i < len(s) and (s[self.i].isalnum() or s[self.i] == "_"):
            self.i += 1
        word = s[j:self.i]
        if word == "TRUE":
            return True
        if word == "FALSE":
            return False
        if not word:
            raise ParseError("unexpected %r at %d" % (c, self.i))
        return word


def _key(k):
    if isinstance(k, list):
        return tuple(_key(x) for x in k)
    return k


if __name__ == "__main__":
    import sys
    print(parse(sys.argv[1]))
