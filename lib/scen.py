"""Hand-written scenarios (scripts) - each one is a history that demonstrated a defect of the
pinned tree on the real code, kept as a regression scenario; plus a few straight-line ones."""

S = {"a": "S_Send"}
R = {"a": "R_Send"}
ST = {"a": "S_Timeout"}
RT = {"a": "R_Timeout"}


def D(ch, i=1):
    return {"a": "Deliver", "ch": ch, "i": i}


def Dr(ch="c2r", i=1):
    return D("c2r", i)


def Ds(i=1):
    return D("c2s", i)


def Drop(ch, i=1):
    return {"a": "Drop", "ch": ch, "i": i}


def Dup(ch, i=1):
    return {"a": "Dup", "ch": ch, "i": i}


def T(d):
    return {"a": "Tick", "d": d}


def SC(c):
    return {"a": "S_Cmd", "c": c}


def RC(c):
    return {"a": "R_Cmd", "c": c}


def Inj(ch, pdu):
    return {"a": "Inject", "ch": ch, "pdu": pdu}


def cfg(**kw):
    c = {"mode": "ack", "closure": False, "nakproc": "def", "delay": 0, "limit": 3, "to": [4, 2, 3],
         "handlers": {}, "crc": False, "cksum": "modular", "seg": 2, "unit": 8, "file": [1, 2, 0, 1],
         "isfile": True, "fsreqs": [], "pre": {}}
    c.update(kw)
    return c


def send_all(n_data):
    """sender emits metadata + n data + EOF, each delivered at once"""
    p = []
    for _ in range(n_data + 2):
        p += [S, Dr()]
    return p


def scenarios():
    out = []

    def add(id, c, path, expect):
        out.append({"id": id, "cfg": c, "path": path, "expect": expect})

    # straight line, acknowledged
    add("happy-ack", cfg(), send_all(2) + [R, Ds(), R, Ds(), S, Dr()], [])
    # C04: EOF duplicated, second copy arrives after the delivery completed
    add("c04-dup-eof-after-delivery", cfg(),
        [S, Dr(), S, Dr(), S, Dr(), S, Dup("c2r"), Dr(), Dr()], [])
    # C04: late duplicate of a data segment after delivery
    add("c04-dup-data-after-delivery", cfg(),
        [S, Dr(), S, Dup("c2r"), Dr(), S, D("c2r", 2), S, D("c2r", 2), Dr()], [])
    # C02/C01: first segment lost, checksum-neutral content (1,2 sum to 0)
    add("c01-first-segment-lost-neutral", cfg(file=[1, 2, 0, 1]),
        [S, Dr(), S, Drop("c2r"), S, Dr(), S, Dr(), R, Ds(), R, Ds()], [])
    # C02: empty file
    add("c02-empty-file", cfg(file=[]), [S, Dr(), S, Dr(), S, Dr(), R, Ds(), R, Ds(), S, Dr()], [])
    # C03/C10: sender cancel, ACK(EOF) gets through, Finished is lost for good
    add("c03-cancel-finished-lost", cfg(),
        [S, Dr(), SC("Cancel"), S, Dr(), R, Ds(), R, Drop("c2s"),
         T(2), RT, R, Drop("c2s"), T(2), ST, RT, R, Drop("c2s"), T(2), RT, T(2), ST, T(4), ST, T(30), T(30)], [])
    # C18: unacknowledged + closure: the sender must wait for Finished
    add("c18-closure-sender-quits", cfg(mode="unack", closure=True), send_all(2) + [R, Ds()], [])
    # C18/C01: unacknowledged, neutral first segment lost
    add("c18-unack-hole-reported-complete", cfg(mode="unack"),
        [S, Dr(), S, Drop("c2r"), S, Dr(), S, Dr()], ["C18", "C01"])
    # C18: unacknowledged, metadata lost
    add("c18-unack-no-metadata-complete", cfg(mode="unack"),
        [S, Drop("c2r"), S, Dr(), S, Dr(), S, Dr()], ["C18"])
    # C19: sender suspended before anything was sent keeps sending
    add("c19-sender-sends-while-suspended", cfg(), [SC("Suspend"), S, S, S], [])
    # C19: receiver suspended, a PDU arrives, then a long silence: inactivity fault while suspended
    add("c19-receiver-fault-while-suspended", cfg(),
        [S, Dr(), RC("Suspend"), S, Dr(), T(4), RT, T(4), RT, T(4), RT], [])
    # C20: sender progress after two first-pass segments
    add("c20-sender-progress", cfg(), [S, Dr(), S, Dr(), S, Dr(), SC("Suspend"), SC("Resume")], [])
    # C17: the sender's inactivity count is never reset: three isolated periods add up
    add("c17-sender-inactivity-accumulates", cfg(to=[4, 2, 5], limit=3, file=[1, 2, 0, 1, 1, 1]),
        [S, Dr(), S, Drop("c2r"), S, Drop("c2r"), S, Drop("c2r"), S, Dr(), R, Ds(),
         R, Ds(), S, Dr(), T(4), ST, T(1), RT, R, Ds(), S, Dr(), T(4), ST, T(1), RT, R, Ds(), S, Dr(), T(4), ST], [])
    # C17: a user prompt after the EOF was acknowledged restarts the ACK timer
    add("c17-prompt-restarts-ack-timer", cfg(to=[40, 2, 30], limit=3),
        [S, Dr(), S, Drop("c2r"), S, Dr(), S, Dr(), R, Ds(), SC("PromptKeepAlive"), S, Dr(), R, Ds(),
         T(2), ST, S, Drop("c2r"), T(2), ST, S, Drop("c2r"), T(2), ST], [])
    # C17: the EOF timer expires while the first EOF is still in flight; its ACK then arrives, but the
    # retransmission flag stays set: the acknowledged EOF is sent again and the limit is hit
    add("c17-eof-retransmitted-after-ack", cfg(limit=2, file=[1, 2, 0]),
        [S, S, S, S, Dr(), Dr(), Dr(), T(2), ST, Dr(), R, Ds(), S, R, T(2), ST], [])
    # C17/C19 (found by TLC, MC suspS): a suspend/resume (or a bare resume) issued when an ACK-timer expiry is due
    # but not yet serviced: restart() counts the expiry but forgets the retransmission it owes
    add("c17-resume-swallows-retransmission", cfg(limit=2, file=[1, 2, 0]),
        [S, S, S, S, Dr(), Dr(), Dr(), Drop("c2r"), T(2), SC("Suspend"), SC("Resume"), S, Drop("c2r"), T(2), ST], [])
    # C17 (found by TLC, MC suspR): the ACK(EOF) arrives exactly when the ACK timer expires; pause() latches
    # `occurred`, and the next (inactivity) timeout retransmits the acknowledged EOF with the old count
    add("c17-ack-at-expiry-latches-occurred", cfg(limit=2, file=[1, 2, 0]),
        [S, S, S, S, Dr(), Dr(), Dr(), Dr(), R, RC("Suspend"), T(2), Ds(), T(4), ST, S, Dr(), T(2), ST], [])
    # C03 (found by TLC, MC prompt): a Prompt(NAK) answered after the delivery completed starts the NAK timer in the
    # Finished state, where nothing services it: until_timeout() stays 0 and the task spins on sleep(0)
    add("c03-late-prompt-nak-spins", cfg(limit=2, file=[1, 2, 0]),
        [SC("PromptNak"), S, S, S, S, S, Dr(), Dr(), Dr(), Dr(), Dr(), R, R, R, Ds(), Ds(), Ds(), S, Drop("c2r"),
         T(2), RT, R, Ds(), T(1), RT], [])
    # C10 (found by TLC, MC unackcCancelR): unacknowledged + closure, cancel at the receiver: the Finished(cancel)
    # used to be prepared but never sent because the transaction shut down first
    add("c10-unack-closure-receiver-cancel", cfg(mode="unack", closure=True, limit=2, file=[1, 2, 0]),
        [S, Dr(), RC("Cancel"), R, Ds(), T(2), RT, R, Ds(), T(2), RT], [])
    # C18 (found by TLC, MC suspS-unack): resume() restarted the ACK timer although no EOF awaited an ACK:
    # an unacknowledged sender waiting for closure retransmitted its EOF
    add("c18-resume-rearms-ack-timer-unack", cfg(mode="unack", closure=True, limit=2, file=[1, 2, 0]),
        [S, S, S, S, SC("Suspend"), SC("Resume"), T(2), ST, S], [])
    # ... and an acknowledged sender retransmitted an EOF that had been acknowledged
    add("c17-resume-rearms-ack-timer-acked", cfg(limit=2, file=[1, 2, 0]),
        [S, S, S, S, Dr(), Dr(), Dr(), Dr(), R, Ds(), SC("Suspend"), SC("Resume"), T(2), ST, S], [])
    return out
