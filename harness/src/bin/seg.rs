//! C09: walk the TLC-generated state graph of Segments.tla on the real `Segments`.
//!
//! usage: seg <graph.json> <depth> <nmaps> <seed> <random_paths> <random_len>
//! The graph is the oracle (states with the value of every query, edges with the value
//! every merge must return); this binary only drives and compares.
use cfdp_daemon::verif::Segments;
use rand::{rngs::StdRng, Rng, SeedableRng};
use serde_json::{json, Value};
use std::collections::HashMap;
use std::panic::{catch_unwind, AssertUnwindSafe};

struct State {
    ranges: Vec<(usize, usize)>,
    complete: Vec<bool>,
    gaps: HashMap<(usize, usize), Vec<(usize, usize)>>,
}
struct Graph {
    m: usize,
    states: HashMap<u64, State>,
    // state -> (a,b) -> (count cells mask of new, next)
    edges: HashMap<u64, Vec<(usize, usize, u64)>>,
}

fn pairs(v: &Value) -> Vec<(usize, usize)> {
    v.as_array()
        .unwrap()
        .iter()
        .map(|p| (p[0].as_u64().unwrap() as usize, p[1].as_u64().unwrap() as usize))
        .collect()
}

fn load(path: &str) -> Graph {
    let v: Value = serde_json::from_str(&std::fs::read_to_string(path).unwrap()).unwrap();
    let m = v["M"].as_u64().unwrap() as usize;
    let mut states = HashMap::new();
    for (k, s) in v["states"].as_object().unwrap() {
        let mut gaps = HashMap::new();
        for (w, g) in s["gaps"].as_object().unwrap() {
            let mut it = w.split(',');
            let a: usize = it.next().unwrap().parse().unwrap();
            let b: usize = it.next().unwrap().parse().unwrap();
            gaps.insert((a, b), pairs(g));
        }
        states.insert(
            k.parse::<u64>().unwrap(),
            State {
                ranges: pairs(&s["ranges"]),
                complete: s["complete"].as_array().unwrap().iter().map(|b| b.as_bool().unwrap()).collect(),
                gaps,
            },
        );
    }
    let mut edges = HashMap::new();
    for (k, es) in v["edges"].as_object().unwrap() {
        edges.insert(
            k.parse::<u64>().unwrap(),
            es.as_array()
                .unwrap()
                .iter()
                .map(|e| (e[0].as_u64().unwrap() as usize, e[1].as_u64().unwrap() as usize, e[3].as_u64().unwrap()))
                .collect(),
        );
    }
    Graph { m, states, edges }
}

struct Ctx<'a> {
    g: &'a Graph,
    bnd: &'a [u64],
    evaluations: u64,
    calls: u64,
    violations: Vec<Value>,
    states_seen: std::collections::HashSet<u64>,
    edges_seen: std::collections::HashSet<(u64, usize, usize)>,
}

impl Ctx<'_> {
    fn weight(&self, mask: u64) -> u64 {
        (0..self.g.m).filter(|i| mask >> i & 1 == 1).map(|i| self.bnd[i + 1] - self.bnd[i]).sum()
    }
    fn real(&self, v: &[(usize, usize)]) -> Vec<(u64, u64)> {
        v.iter().map(|(a, b)| (self.bnd[*a], self.bnd[*b])).collect()
    }
    fn report(&mut self, path: &[(usize, usize)], what: &str, expected: Value, got: Value) {
        if self.violations.len() < 20 {
            let rp: Vec<(u64, u64)> = self.real(path);
            self.violations.push(json!({"path": path, "real_path": rp, "bnd": self.bnd, "what": what, "expected": expected, "got": got}));
        }
    }

    /// replay `path` from scratch; check the value of the last merge and every query after it
    fn run(&mut self, path: &[(usize, usize)]) {
        self.evaluations += 1;
        let g = self.g;
        let res = catch_unwind(AssertUnwindSafe(|| {
            let mut seg = Segments::new();
            let mut st = 0u64;
            let mut out: Vec<(String, Value, Value)> = vec![];
            let mut calls = 0u64;
            for (i, (a, b)) in path.iter().enumerate() {
                let e = g.edges[&st].iter().find(|e| e.0 == *a && e.1 == *b).expect("edge in graph");
                let next = e.2;
                let got = seg.merge((self.bnd[*a], self.bnd[*b]));
                calls += 1;
                if i + 1 == path.len() || true {
                    let exp = self.weight(next & !st);
                    if got != exp {
                        out.push(("merge return (new bytes)".into(), json!(exp), json!(got)));
                    }
                }
                st = next;
            }
            let s = &g.states[&st];
            let exp_r = self.real(&s.ranges);
            let got_r = seg.verif_ranges();
            if exp_r != got_r {
                out.push(("stored ranges".into(), json!(exp_r), json!(got_r)));
            }
            let exp_len = s.ranges.len();
            if seg.len() != exp_len {
                out.push(("len".into(), json!(exp_len), json!(seg.len())));
            }
            let exp_end = exp_r.last().map(|x| x.1);
            if seg.end() != exp_end || seg.end_or_0() != exp_end.unwrap_or(0) {
                out.push(("end/end_or_0".into(), json!(exp_end), json!([seg.end(), Some(seg.end_or_0())])));
            }
            for n in 0..=g.m {
                calls += 1;
                let got = seg.is_complete(self.bnd[n]);
                if got != s.complete[n] {
                    out.push((format!("is_complete({})", self.bnd[n]), json!(s.complete[n]), json!(got)));
                }
            }
            for ((a, b), gexp) in &s.gaps {
                calls += 1;
                let got = seg.gaps(self.bnd[*a], self.bnd[*b]);
                let exp = self.real(gexp);
                if got != exp {
                    out.push((format!("gaps({},{})", self.bnd[*a], self.bnd[*b]), json!(exp), json!(got)));
                }
            }
            (st, out, calls)
        }));
        match res {
            Ok((st, out, calls)) => {
                self.calls += calls;
                self.states_seen.insert(st);
                for (w, e, g) in out {
                    self.report(path, &w, e, g);
                }
            }
            Err(p) => {
                let msg = p.downcast_ref::<String>().cloned().or_else(|| p.downcast_ref::<&str>().map(|s| s.to_string())).unwrap_or_default();
                self.report(path, "panic", json!("no panic"), json!(msg));
            }
        }
    }

    fn dfs(&mut self, path: &mut Vec<(usize, usize)>, st: u64, depth: usize) {
        self.run(path);
        if depth == 0 {
            return;
        }
        let es: Vec<(usize, usize, u64)> = self.g.edges[&st].clone();
        for (a, b, next) in es {
            self.edges_seen.insert((st, a, b));
            path.push((a, b));
            self.dfs(path, next, depth - 1);
            path.pop();
        }
    }
}

fn main() {
    std::panic::set_hook(Box::new(|_| {}));
    let args: Vec<String> = std::env::args().collect();
    let g = load(&args[1]);
    if args[2] == "path" {
        // replay of one recorded path: seg <graph> path <path json> <bnd json>
        let path: Vec<(usize, usize)> = serde_json::from_str(&args[3]).unwrap();
        let bnd: Vec<u64> = serde_json::from_str(&args[4]).unwrap();
        let mut ctx = Ctx { g: &g, bnd: &bnd, evaluations: 0, calls: 0, violations: vec![], states_seen: Default::default(), edges_seen: Default::default() };
        for i in 0..=path.len() {
            ctx.run(&path[..i]);
        }
        println!("{}", json!({"violations": ctx.violations}));
        return;
    }
    let depth: usize = args[2].parse().unwrap();
    let nmaps: usize = args[3].parse().unwrap();
    let seed: u64 = args[4].parse().unwrap();
    let rpaths: usize = args[5].parse().unwrap();
    let rlen: usize = args[6].parse().unwrap();
    let mut rng = StdRng::seed_from_u64(seed);

    let ident: Vec<u64> = (0..=g.m as u64).collect();
    let mut maps: Vec<Vec<u64>> = vec![ident];
    for k in 0..nmaps {
        // strictly increasing boundaries; a mix of small steps and huge jumps, ending up to 2^64-1
        let mut b = vec![0u64; g.m + 1];
        loop {
            let mut cuts: Vec<u64> = (0..g.m + 1)
                .map(|_| match rng.gen_range(0..4) {
                    0 => rng.gen_range(0..64),
                    1 => u64::MAX - rng.gen_range(0..64),
                    2 => (1u64 << 32) - 8 + rng.gen_range(0..16),
                    _ => rng.gen::<u64>(),
                })
                .collect();
            cuts.sort();
            cuts.dedup();
            if cuts.len() == g.m + 1 {
                b.copy_from_slice(&cuts);
                break;
            }
        }
        // is_complete(n) is anchored at offset 0, so cell 0 always starts at 0
        b[0] = 0;
        if b[1] == 0 { b[1] = 1; }
        if k % 3 == 0 {
            b[g.m] = u64::MAX;
            if b[g.m - 1] == u64::MAX { b[g.m - 1] = u64::MAX - 1; }
        }
        let ok = b.windows(2).all(|w| w[0] < w[1]);
        if ok { maps.push(b); }
    }

    let mut total_eval = 0u64;
    let mut total_calls = 0u64;
    let mut violations: Vec<Value> = vec![];
    let mut states_seen = std::collections::HashSet::new();
    let mut edges_seen = std::collections::HashSet::new();
    let mut samples: Vec<Value> = vec![];
    for (mi, bnd) in maps.iter().enumerate() {
        let mut ctx = Ctx { g: &g, bnd, evaluations: 0, calls: 0, violations: vec![], states_seen: Default::default(), edges_seen: Default::default() };
        // identity map: all paths to `depth`; stretched maps: one level less
        let d = if mi == 0 { depth } else { depth.saturating_sub(1).max(2) };
        ctx.dfs(&mut vec![], 0, d);
        for _ in 0..rpaths {
            let mut path = vec![];
            let mut st = 0u64;
            for _ in 0..rlen {
                let es = &g.edges[&st];
                let e = es[rng.gen_range(0..es.len())];
                path.push((e.0, e.1));
                st = e.2;
                ctx.run(&path);
            }
            if samples.len() < 3 {
                samples.push(json!({"bnd": bnd, "path": ctx.real(&path)}));
            }
        }
        total_eval += ctx.evaluations;
        total_calls += ctx.calls;
        if mi == 0 {
            states_seen = ctx.states_seen.clone();
            edges_seen = ctx.edges_seen.clone();
        }
        violations.extend(ctx.violations);
        if violations.len() >= 20 { break; }
    }
    let out = json!({
        "evaluations": total_eval,
        "calls_compared": total_calls,
        "maps": maps.len(),
        "graph_states": g.states.len(),
        "graph_edges": g.edges.values().map(|v| v.len()).sum::<usize>(),
        "states_reached_identity": states_seen.len(),
        "edges_walked_identity": edges_seen.len(),
        "violations": violations,
        "samples": samples,
    });
    println!("{}", out);
}
