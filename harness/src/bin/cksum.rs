//! C14: drive the real `FileChecksum::checksum` through a reader that returns exactly the
//! chunk sizes of a TLC-enumerated chunking, and record the results as an ndjson trace that
//! TLC validates against Checksum.tla.
//!
//! usage: cksum <graph.json> <out.ndjson> <seed> <n_random> <big:0|1>
use cfdp_core::filestore::{ChecksumType, FileChecksum};
use rand::{rngs::StdRng, Rng, SeedableRng};
use serde_json::{json, Value};
use std::collections::{BTreeMap, HashMap};
use std::io::{Read, Seek, SeekFrom, Write};
use std::panic::{catch_unwind, AssertUnwindSafe};

/// a reader over `data` whose k-th read returns at most `plan[k % len]` bytes
struct Scripted {
    data: Vec<u8>,
    pos: usize,
    plan: Vec<usize>,
    k: usize,
    reads: Vec<usize>,
    /// the reader's `fail.0`-th read (0-based, counted over the whole life of the reader) fails with this error kind
    fail: Option<(usize, std::io::ErrorKind)>,
    nread: usize,
}
impl Read for Scripted {
    fn read(&mut self, buf: &mut [u8]) -> std::io::Result<usize> {
        if let Some((at, kind)) = self.fail {
            self.nread += 1;
            if self.nread - 1 == at {
                return Err(std::io::Error::new(kind, "scripted read failure"));
            }
        }
        let rem = self.data.len() - self.pos;
        if rem == 0 || buf.is_empty() {
            return Ok(0);
        }
        let want = if self.plan.is_empty() { rem } else { self.plan[self.k % self.plan.len()] };
        self.k += 1;
        let n = want.min(rem).min(buf.len());
        buf[..n].copy_from_slice(&self.data[self.pos..self.pos + n]);
        self.pos += n;
        self.reads.push(n);
        Ok(n)
    }
}
impl Seek for Scripted {
    fn seek(&mut self, to: SeekFrom) -> std::io::Result<u64> {
        let p = match to {
            SeekFrom::Start(p) => p as i64,
            SeekFrom::Current(d) => self.pos as i64 + d,
            SeekFrom::End(d) => self.data.len() as i64 + d,
        };
        self.pos = p.max(0) as usize;
        if self.pos == 0 {
            self.k = 0;
            self.reads.clear();
        }
        Ok(self.pos as u64)
    }
}

struct Out {
    // (bytes, result) -> (count, sample chunking)
    seen: BTreeMap<(Vec<u8>, Option<(u32, u32)>), (u64, Vec<usize>)>,
    evaluations: u64,
    start_nonzero: u64,
    failing_reader_err: u64,
    failing_reader_ok: u64,
}

/// Checksum.tla `Contract`: a reader whose k-th read FAILS.  The call may report the error (or, for a transient kind, retry and
/// succeed) - but whenever it returns Ok(v), v must still be Sum of the WHOLE content: a checksum of the part read so far is wrong.
fn eval_fail(out: &mut Out, data: &[u8], plan: &[usize], at: usize, kind: std::io::ErrorKind) {
    out.evaluations += 1;
    let r = catch_unwind(AssertUnwindSafe(|| {
        let mut rd = Scripted { data: data.to_vec(), pos: 0, plan: plan.to_vec(), k: 0, reads: vec![], fail: Some((at, kind)), nread: 0 };
        let m = rd.checksum(ChecksumType::Modular).ok()?;
        Some((m, rd.reads.clone()))
    }));
    match r {
        Ok(Some((m, mut reads))) => {
            out.failing_reader_ok += 1;
            reads.push(0); // marks the failing-reader records (a read of 0 bytes never occurs in a plan)
            let e = out.seen.entry((data.to_vec(), Some((m, 0)))).or_insert((0, reads));
            e.0 += 1;
        }
        Ok(None) => out.failing_reader_err += 1,
        Err(_) => {
            out.seen.entry((data.to_vec(), None)).or_insert((0, plan.to_vec())).0 += 1;
        }
    }
}

fn eval(out: &mut Out, data: &[u8], plan: &[usize], pre_seek: bool) {
    out.evaluations += 1;
    let r = catch_unwind(AssertUnwindSafe(|| {
        let mut rd = Scripted { data: data.to_vec(), pos: 0, plan: plan.to_vec(), k: 0, reads: vec![], fail: None, nread: 0 };
        if pre_seek && !data.is_empty() {
            // the checksum must not depend on where the cursor was left
            rd.pos = data.len() / 2;
        }
        let m = rd.checksum(ChecksumType::Modular).ok()?;
        let reads = rd.reads.clone();
        let z = rd.checksum(ChecksumType::Null).ok()?;
        Some((m, z, reads))
    }));
    let (key, reads) = match r {
        Ok(Some((m, z, reads))) => (Some((m, z)), reads),
        _ => (None, plan.to_vec()),
    };
    if pre_seek { out.start_nonzero += 1; }
    let e = out.seen.entry((data.to_vec(), key)).or_insert((0, reads));
    e.0 += 1;
}

fn main() {
    std::panic::set_hook(Box::new(|_| {}));
    let a: Vec<String> = std::env::args().collect();
    let g: Value = serde_json::from_str(&std::fs::read_to_string(&a[1]).unwrap()).unwrap();
    let seed: u64 = a[3].parse().unwrap();
    let nrand: usize = a[4].parse().unwrap();
    let big = a[5] == "1";
    let mut rng = StdRng::seed_from_u64(seed);
    let mut out = Out { seen: BTreeMap::new(), evaluations: 0, start_nonzero: 0, failing_reader_err: 0, failing_reader_ok: 0 };

    // 1. every path of the TLC graph: every composition of every length
    let mut edges: HashMap<(u64, u64), Vec<u64>> = HashMap::new();
    for e in g["edges"].as_array().unwrap() {
        edges.entry((e[0].as_u64().unwrap(), e[1].as_u64().unwrap())).or_default().push(e[2].as_u64().unwrap());
    }
    let mut paths_total = 0u64;
    for f in g["files"].as_array().unwrap() {
        let n = f["n"].as_u64().unwrap();
        let data: Vec<u8> = f["bytes"].as_array().unwrap().iter().map(|b| b.as_u64().unwrap() as u8).collect();
        // DFS over chunkings
        let mut stack: Vec<(u64, Vec<usize>)> = vec![(0, vec![])];
        while let Some((pos, plan)) = stack.pop() {
            if pos == n {
                paths_total += 1;
                eval(&mut out, &data, &plan, false);
                // same chunking with seeded random content of the same length
                let rnd: Vec<u8> = (0..n).map(|_| rng.gen()).collect();
                eval(&mut out, &rnd, &plan, paths_total % 7 == 0);
                // the same chunking behind a reader that fails at its j-th read (every j, two error kinds) - short files only
                if n <= 7 {
                    for j in 0..=plan.len() {
                        eval_fail(&mut out, &rnd, &plan, j, std::io::ErrorKind::Interrupted);
                        eval_fail(&mut out, &rnd, &plan, j, std::io::ErrorKind::Other);
                        eval_fail(&mut out, &data, &plan, j, std::io::ErrorKind::Other);
                    }
                }
                continue;
            }
            if let Some(ks) = edges.get(&(n, pos)) {
                for k in ks {
                    let mut p = plan.clone();
                    p.push(*k as usize);
                    stack.push((pos + k, p));
                }
            }
        }
    }
    // 2. seeded random contents and chunkings (short, so that TLC validates them quickly)
    for _ in 0..nrand {
        let n = rng.gen_range(0..40);
        let data: Vec<u8> = (0..n).map(|_| if rng.gen_bool(0.3) { 0xFF } else { rng.gen() }).collect();
        let plan: Vec<usize> = (0..rng.gen_range(1..6)).map(|_| rng.gen_range(1..10)).collect();
        eval(&mut out, &data, &plan, rng.gen_bool(0.2));
    }
    // 3. lengths straddling the 8 KiB buffer of the implementation
    if big {
        for base in [8192usize, 16384, 3 * 8192] {
            for d in -4i64..=5 {
                let n = (base as i64 + d) as usize;
                let structured: Vec<u8> = (0..n).map(|i| if i % 5 == 0 { 0xFF } else { (i % 251) as u8 }).collect();
                let random: Vec<u8> = (0..n).map(|_| rng.gen()).collect();
                for data in [structured, random] {
                    for plan in [vec![], vec![8191], vec![8193], vec![1, 2, 3, 4, 5, 6, 7, 8, 9], vec![3], vec![8190, 1, 1, 7], vec![4096, 4097]] {
                        eval(&mut out, &data, &plan, false);
                    }
                    // a short first read (any remainder mod 4), then reads that fill the implementation's buffer completely
                    if d == 0 || d == 5 {
                        for h in 1..=9usize {
                            for bigread in [8192usize, 8193, 4096] {
                                let mut plan = vec![h];
                                plan.extend(std::iter::repeat(bigread).take(8));
                                eval(&mut out, &data, &plan, false);
                            }
                        }
                    }
                    if d == 1 {
                        for j in 0..4 {
                            eval_fail(&mut out, &data, &[8192], j, std::io::ErrorKind::Interrupted);
                            eval_fail(&mut out, &data, &[4096, 4097], j, std::io::ErrorKind::UnexpectedEof);
                        }
                    }
                    // seeded mixtures of small and buffer-sized reads
                    for _ in 0..6 {
                        let sizes = [1usize, 2, 3, 5, 7, 4095, 4096, 8191, 8192, 8193];
                        let plan: Vec<usize> = (0..rng.gen_range(2..7)).map(|_| sizes[rng.gen_range(0..sizes.len())]).collect();
                        eval(&mut out, &data, &plan, false);
                    }
                }
            }
        }
    }
    let mut f = std::io::BufWriter::new(std::fs::File::create(&a[2]).unwrap());
    let mut records = 0u64;
    let mut samples = vec![];
    let mut errors = vec![];
    for ((bytes, key), (count, reads)) in &out.seen {
        match key {
            Some((m, z)) => {
                writeln!(f, "{}", json!({"bytes": bytes, "hi": m >> 16, "lo": m & 0xFFFF, "null": z, "count": count, "reads": reads})).unwrap();
                records += 1;
                if samples.len() < 3 && bytes.len() > 4 && bytes.len() < 12 {
                    samples.push(json!({"bytes": bytes, "reads": reads, "checksum": m}));
                }
            }
            None => errors.push(json!({"bytes_len": bytes.len(), "reads": reads})),
        }
    }
    println!("{}", json!({"evaluations": out.evaluations, "records": records, "chunkings_from_graph": paths_total,
                          "with_displaced_cursor": out.start_nonzero,
                          "failing_reader_error_reported": out.failing_reader_err, "failing_reader_value_returned": out.failing_reader_ok, "errors_or_panics": errors, "samples": samples}));
}
