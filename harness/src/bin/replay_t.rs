//! Level T: step-driven replay of specification scripts on the real SendTransaction /
//! RecvTransaction objects (virtual clock), recording one trace line per script step.
//!
//! usage: replay_t <scripts.ndjson> <traces.ndjson>
//! A script: {"id":..., "cfg":{...}, "path":[{"a":"S_Send"}, {"a":"Deliver","ch":"c2r","i":1}, ...]}
//! The trace of a script starts with a {"a":"Reset", "cfg":...} line.
use camino::Utf8PathBuf;
use cfdp_core::{
    daemon::{Indication, NakProcedure},
    filestore::{ChecksumType, FileChecksum, NativeFileStore},
    pdu::*,
    transaction::{Metadata, TransactionConfig, TransactionState},
};
use cfdp_daemon::transaction::{RecvTransaction, SendTransaction, TransactionError};
use cfdp_verif_harness::proj::*;
use serde_json::{json, Value};
use std::collections::HashMap;
use std::io::{BufRead, Write};
use std::panic::{catch_unwind, AssertUnwindSafe};
use std::sync::Arc;
use std::time::Duration;
use tokio::sync::mpsc::{channel, Receiver, Sender};

type Fs = NativeFileStore;

fn cond_from(name: &str) -> Condition {
    match name {
        "NoError" => Condition::NoError,
        "PositiveLimitReached" => Condition::PositiveLimitReached,
        "KeepAliveLimitReached" => Condition::KeepAliveLimitReached,
        "FileStoreRejection" => Condition::FileStoreRejection,
        "FileChecksumFailure" => Condition::FileChecksumFailure,
        "FilesizeError" => Condition::FilesizeError,
        "NakLimitReached" => Condition::NakLimitReached,
        "InactivityDetected" => Condition::InactivityDetected,
        "CheckLimitReached" => Condition::CheckLimitReached,
        "SuspendReceived" => Condition::SuspendReceived,
        "CancelReceived" => Condition::CancelReceived,
        _ => Condition::NoError,
    }
}
fn action_from(name: &str) -> FaultHandlerAction {
    match name {
        "Ignore" => FaultHandlerAction::Ignore,
        "Suspend" => FaultHandlerAction::Suspend,
        "Abandon" => FaultHandlerAction::Abandon,
        _ => FaultHandlerAction::Cancel,
    }
}
fn fsaction_from(name: &str) -> FileStoreAction {
    match name {
        "CreateFile" => FileStoreAction::CreateFile,
        "DeleteFile" => FileStoreAction::DeleteFile,
        "RenameFile" => FileStoreAction::RenameFile,
        "AppendFile" => FileStoreAction::AppendFile,
        "ReplaceFile" => FileStoreAction::ReplaceFile,
        "CreateDirectory" => FileStoreAction::CreateDirectory,
        "RemoveDirectory" => FileStoreAction::RemoveDirectory,
        "DenyFile" => FileStoreAction::DenyFile,
        _ => FileStoreAction::DenyDirectory,
    }
}

/// bytes of one model cell
fn cell_bytes(v: u64, unit: u64) -> Vec<u8> {
    let mut b = vec![0u8; unit as usize];
    if unit >= 4 {
        let w: u32 = match v {
            0 => 0,
            1 => 1,
            2 => 0xFFFF_FFFF,
            x => x as u32,
        };
        b[..4].copy_from_slice(&w.to_be_bytes());
    } else {
        b[0] = match v {
            2 => 0xFF,
            x => x as u8,
        };
    }
    b
}

struct World {
    cfg: Value,
    sc: Scale,
    src: Vec<u8>,
    src_ck: u32,
    s_root: tempfile::TempDir,
    r_root: tempfile::TempDir,
    s_fs: Arc<Fs>,
    r_fs: Arc<Fs>,
    tcfg: TransactionConfig,
    metadata: Metadata,
    nakproc: NakProcedure,
    hdr: PDUHeader,
    sender: Option<SendTransaction<Fs>>,
    s_dead: Option<String>,
    receiver: Option<RecvTransaction<Fs>>,
    r_dead: Option<String>,
    r_incarnation: u32,
    s_ind_tx: Sender<Indication>,
    s_ind_rx: Receiver<Indication>,
    r_ind_tx: Sender<Indication>,
    r_ind_rx: Receiver<Indication>,
    s_out_tx: Sender<(VariableID, PDU)>,
    s_out_rx: Receiver<(VariableID, PDU)>,
    r_out_tx: Sender<(VariableID, PDU)>,
    r_out_rx: Receiver<(VariableID, PDU)>,
    c2r: Vec<Vec<u8>>,
    c2s: Vec<Vec<u8>>,
    t0: tokio::time::Instant,
    isfile: bool,
    seg_bytes: u64,
    black: std::collections::HashSet<String>,
}

/// next step of the epilogue: in-flight PDUs first (lost on a dark direction), then sends, then due timeouts, then time
fn epilogue_step(w: &World, bound: u64, idle_jump: &mut bool) -> Option<Value> {
    for (ch, q) in [("c2r", &w.c2r), ("c2s", &w.c2s)] {
        if !q.is_empty() {
            let a = if w.black.contains(ch) { "Drop" } else { "Deliver" };
            return Some(json!({"a": a, "ch": ch, "i": 1}));
        }
    }
    if w.sender.as_ref().map(|t| t.verif_has_pdu_to_send()).unwrap_or(false) {
        return Some(json!({"a": "S_Send"}));
    }
    if w.receiver.as_ref().map(|t| t.verif_has_pdu_to_send()).unwrap_or(false) {
        return Some(json!({"a": "R_Send"}));
    }
    let su = w.sender.as_ref().map(|t| t.verif_until_timeout());
    let ru = w.receiver.as_ref().map(|t| t.verif_until_timeout());
    if su == Some(Duration::ZERO) {
        return Some(json!({"a": "S_Timeout"}));
    }
    if ru == Some(Duration::ZERO) {
        return Some(json!({"a": "R_Timeout"}));
    }
    if w.sender.is_none() && w.receiver.is_none() {
        return None;
    }
    let next = [su, ru].iter().flatten().filter(|d| **d != Duration::MAX).map(|d| (d.as_millis() as u64 + 999) / 1000).min();
    match next {
        Some(d) => Some(json!({"a": "Tick", "d": d.max(1)})),
        None => {
            // somebody is alive and nothing will ever wake it up: let the bound pass once
            if *idle_jump {
                None
            } else {
                *idle_jump = true;
                Some(json!({"a": "Tick", "d": bound + 1}))
            }
        }
    }
}

fn s(v: &Value, k: &str) -> String {
    v[k].as_str().unwrap_or("").to_string()
}
fn u(v: &Value, k: &str) -> u64 {
    v[k].as_u64().unwrap_or(0)
}
fn b(v: &Value, k: &str) -> bool {
    v[k].as_bool().unwrap_or(false)
}

impl World {
    fn new(cfg: &Value) -> World {
        let unit = u(cfg, "unit").max(1);
        let sc = Scale { unit };
        let isfile = cfg["isfile"].as_bool().unwrap_or(true);
        let mut src = vec![];
        for c in cfg["file"].as_array().cloned().unwrap_or_default() {
            src.extend(cell_bytes(c.as_u64().unwrap(), unit));
        }
        // ragged tail (bytes that are not a whole unit) for byte-level families
        if let Some(t) = cfg["tail"].as_array() {
            for c in t {
                src.push(c.as_u64().unwrap() as u8);
            }
        }
        let s_root = tempfile::tempdir().unwrap();
        let r_root = tempfile::tempdir().unwrap();
        let s_fs = Arc::new(NativeFileStore::new(Utf8PathBuf::from_path_buf(s_root.path().to_path_buf()).unwrap()));
        let r_fs = Arc::new(NativeFileStore::new(Utf8PathBuf::from_path_buf(r_root.path().to_path_buf()).unwrap()));
        if isfile {
            std::fs::write(s_root.path().join("src.bin"), &src).unwrap();
        }
        // pre-existing entries of the receiver's filestore: {"name": ["f"|"d", length]}
        if let Some(pre) = cfg["pre"].as_object() {
            for (name, p) in pre {
                let path = r_root.path().join(name);
                if p[0].as_str().unwrap() == "d" {
                    std::fs::create_dir_all(&path).unwrap();
                } else {
                    std::fs::write(&path, vec![b'x'; p[1].as_u64().unwrap() as usize]).unwrap();
                }
            }
        }
        let cktype = if s(cfg, "cksum") == "null" { ChecksumType::Null } else { ChecksumType::Modular };
        let src_ck = if isfile { std::io::Cursor::new(src.clone()).checksum(cktype).unwrap() } else { 0 };
        let mode = if s(cfg, "mode") == "unack" { TransmissionMode::Unacknowledged } else { TransmissionMode::Acknowledged };
        let crc = if b(cfg, "crc") { CRCFlag::Present } else { CRCFlag::NotPresent };
        let mut handlers = HashMap::new();
        if let Some(h) = cfg["handlers"].as_object() {
            for (k, v) in h {
                handlers.insert(cond_from(k), action_from(v.as_str().unwrap()));
            }
        }
        let seg_bytes = u(cfg, "seg") * unit;
        let tcfg = TransactionConfig {
            source_entity_id: EntityID::from(1_u16),
            destination_entity_id: EntityID::from(2_u16),
            transmission_mode: mode,
            sequence_number: TransactionSeqNum::from(5_u32),
            file_size_flag: FileSizeFlag::Small,
            fault_handler_override: handlers,
            file_size_segment: seg_bytes as u16,
            crc_flag: crc,
            segment_metadata_flag: SegmentedData::NotPresent,
            max_count: u(cfg, "limit") as u32,
            inactivity_timeout: cfg["to"][0].as_i64().unwrap(),
            ack_timeout: cfg["to"][1].as_i64().unwrap(),
            nak_timeout: cfg["to"][2].as_i64().unwrap(),
        };
        let reqs: Vec<FileStoreRequest> = cfg["fsreqs"]
            .as_array()
            .cloned()
            .unwrap_or_default()
            .iter()
            .map(|r| FileStoreRequest {
                action_code: fsaction_from(r["a"].as_str().unwrap()),
                first_filename: r["f1"].as_str().unwrap_or("").into(),
                second_filename: r["f2"].as_str().unwrap_or("").into(),
            })
            .collect();
        let metadata = Metadata {
            source_filename: if isfile { "src.bin".into() } else { "".into() },
            destination_filename: if isfile { "dst.bin".into() } else { "".into() },
            file_size: src.len() as u64,
            filestore_requests: reqs,
            message_to_user: vec![],
            closure_requested: b(cfg, "closure"),
            checksum_type: cktype,
        };
        let delay = Duration::from_secs(u(cfg, "delay"));
        let nakproc = if s(cfg, "nakproc") == "imm" { NakProcedure::Immediate(delay) } else { NakProcedure::Deferred(delay) };
        let hdr = PDUHeader {
            version: U3::One,
            pdu_type: PDUType::FileDirective,
            direction: Direction::ToReceiver,
            transmission_mode: mode,
            crc_flag: crc,
            large_file_flag: FileSizeFlag::Small,
            pdu_data_field_length: 0,
            segmentation_control: SegmentationControl::NotPreserved,
            segment_metadata_flag: SegmentedData::NotPresent,
            source_entity_id: tcfg.source_entity_id,
            transaction_sequence_number: tcfg.sequence_number,
            destination_entity_id: tcfg.destination_entity_id,
        };
        let (s_ind_tx, s_ind_rx) = channel(4096);
        let (r_ind_tx, r_ind_rx) = channel(4096);
        let (s_out_tx, s_out_rx) = channel(1);
        let (r_out_tx, r_out_rx) = channel(1);
        World {
            cfg: cfg.clone(),
            sc,
            src,
            src_ck,
            s_root,
            r_root,
            s_fs,
            r_fs,
            tcfg,
            metadata,
            nakproc,
            hdr,
            sender: None,
            s_dead: None,
            receiver: None,
            r_dead: None,
            r_incarnation: 0,
            s_ind_tx,
            s_ind_rx,
            r_ind_tx,
            r_ind_rx,
            s_out_tx,
            s_out_rx,
            r_out_tx,
            r_out_rx,
            c2r: vec![],
            c2s: vec![],
            t0: tokio::time::Instant::now(),
            isfile,
            seg_bytes,
            black: std::collections::HashSet::new(),
        }
    }

    fn truth(&self) -> Truth<'_> {
        Truth {
            src: &self.src,
            src_ck: self.src_ck,
            src_name: if self.isfile { "src.bin" } else { "" },
            dst_name: if self.isfile { "dst.bin" } else { "" },
            sc: self.sc,
            hdr: &self.hdr,
            closure: self.metadata.closure_requested,
            nreqs: self.metadata.filestore_requests.len(),
            seg_bytes: self.seg_bytes,
        }
    }

    fn start_sender(&mut self) {
        match SendTransaction::new(self.tcfg.clone(), self.metadata.clone(), self.s_fs.clone(), self.s_ind_tx.clone()) {
            Ok(t) => {
                let _ = t.send_report(None);
                self.sender = Some(t);
            }
            Err(e) => self.s_dead = Some(format!("new: {e}")),
        }
    }

    /// what `spawn_receive_transaction` does with the header of the first PDU
    fn start_receiver(&mut self, header: &PDUHeader) {
        let config = TransactionConfig {
            source_entity_id: header.source_entity_id,
            destination_entity_id: header.destination_entity_id,
            transmission_mode: header.transmission_mode,
            sequence_number: header.transaction_sequence_number,
            file_size_flag: header.large_file_flag,
            fault_handler_override: self.tcfg.fault_handler_override.clone(),
            file_size_segment: self.tcfg.file_size_segment,
            crc_flag: header.crc_flag,
            segment_metadata_flag: header.segment_metadata_flag,
            max_count: self.tcfg.max_count,
            inactivity_timeout: self.tcfg.inactivity_timeout,
            ack_timeout: self.tcfg.ack_timeout,
            nak_timeout: self.tcfg.nak_timeout,
        };
        let t = RecvTransaction::new(config, self.nakproc, self.r_fs.clone(), self.r_ind_tx.clone());
        let _ = t.send_report(None);
        self.receiver = Some(t);
        self.r_dead = None;
        self.r_incarnation += 1;
    }

    fn s_alive(&self) -> bool {
        self.sender.is_some()
    }
    fn r_alive(&self) -> bool {
        self.receiver.is_some()
    }

    /// the task loop exits when the state is Terminated (after a final report) or on Err
    fn settle_sender(&mut self, res: Result<Result<(), TransactionError>, String>) -> String {
        match res {
            Err(p) => {
                self.sender = None;
                self.s_dead = Some(format!("panic: {p}"));
                "panic".into()
            }
            Ok(Err(TransactionError::UnexpectedPDU(..))) => "unexpected".into(),
            Ok(Err(e)) => {
                self.sender = None;
                self.s_dead = Some(format!("{e}"));
                format!("err: {e}")
            }
            Ok(Ok(())) => {
                if let Some(t) = self.sender.as_ref() {
                    if t.verif_state() == TransactionState::Terminated {
                        let _ = t.send_report(None);
                        self.sender = None;
                        self.s_dead = Some("ended".into());
                    }
                }
                "ok".into()
            }
        }
    }
    fn settle_receiver(&mut self, res: Result<Result<(), TransactionError>, String>) -> String {
        match res {
            Err(p) => {
                self.receiver = None;
                self.r_dead = Some(format!("panic: {p}"));
                "panic".into()
            }
            Ok(Err(TransactionError::UnexpectedPDU(..))) => "unexpected".into(),
            Ok(Err(e)) => {
                self.receiver = None;
                self.r_dead = Some(format!("{e}"));
                format!("err: {e}")
            }
            Ok(Ok(())) => {
                if let Some(t) = self.receiver.as_ref() {
                    if t.verif_state() == TransactionState::Terminated {
                        let _ = t.send_report(None);
                        self.receiver = None;
                        self.r_dead = Some("ended".into());
                    }
                }
                "ok".into()
            }
        }
    }

    fn tree(&self) -> Value {
        let mut m = serde_json::Map::new();
        let root = self.r_root.path();
        let mut stack = vec![root.to_path_buf()];
        while let Some(d) = stack.pop() {
            if let Ok(rd) = std::fs::read_dir(&d) {
                for e in rd.flatten() {
                    let p = e.path();
                    let rel = p.strip_prefix(root).unwrap().to_string_lossy().to_string();
                    if rel == "dst.bin" {
                        continue;
                    }
                    if p.is_dir() {
                        m.insert(rel, json!(["d", 0]));
                        stack.push(p);
                    } else {
                        let len = e.metadata().map(|m| m.len()).unwrap_or(0);
                        m.insert(rel, json!(["f", len]));
                    }
                }
            }
        }
        Value::Object(m)
    }

    fn dest(&self) -> Value {
        let p = self.r_root.path().join("dst.bin");
        match std::fs::read(&p) {
            Err(_) => json!({"st": "absent", "len": 0}),
            Ok(bytes) => {
                let eq = bytes == self.src;
                let len = if bytes.len() as u64 % self.sc.unit == 0 { (bytes.len() as u64 / self.sc.unit) as i64 } else { -1 - bytes.len() as i64 };
                json!({"st": if eq { "eq" } else { "diff" }, "len": len})
            }
        }
    }
}

fn panic_msg(p: Box<dyn std::any::Any + Send>) -> String {
    p.downcast_ref::<String>().cloned().or_else(|| p.downcast_ref::<&str>().map(|s| s.to_string())).unwrap_or_else(|| "?".into())
}

/// build a PDU described in a script (adversarial peers)
fn inject_pdu(w: &World, d: &Value) -> PDU {
    let sc = w.sc.unit;
    let k = d["k"].as_str().unwrap();
    let (payload, dir) = match k {
        "NAK" => (
            PDUPayload::Directive(Operations::Nak(NegativeAcknowledgmentPDU {
                start_of_scope: u(d, "s") * sc,
                end_of_scope: u(d, "e") * sc,
                segment_requests: d["reqs"].as_array().unwrap().iter().map(|r| SegmentRequestForm {
                    start_offset: r[0].as_u64().unwrap() * sc,
                    end_offset: r[1].as_u64().unwrap() * sc,
                }).collect(),
            })),
            Direction::ToSender,
        ),
        "ACK" => {
            let fin = d["of"].as_str().unwrap() == "Finished";
            (
                PDUPayload::Directive(Operations::Ack(PositiveAcknowledgePDU {
                    directive: if fin { PDUDirective::Finished } else { PDUDirective::EoF },
                    directive_subtype_code: if fin { ACKSubDirective::Finished } else { ACKSubDirective::Other },
                    condition: cond_from(d["cond"].as_str().unwrap_or("NoError")),
                    transaction_status: TransactionStatus::Active,
                })),
                if fin { Direction::ToReceiver } else { Direction::ToSender },
            )
        }
        "KeepAlive" => (PDUPayload::Directive(Operations::KeepAlive(KeepAlivePDU { progress: u(d, "progress") * sc })), Direction::ToSender),
        "Finished" => (
            PDUPayload::Directive(Operations::Finished(Finished {
                condition: cond_from(d["cond"].as_str().unwrap_or("NoError")),
                delivery_code: if d["deliv"].as_str().unwrap_or("Complete") == "Complete" { DeliveryCode::Complete } else { DeliveryCode::Incomplete },
                file_status: match d["fstat"].as_str().unwrap_or("Retained") { "Retained" => FileStatusCode::Retained, "Discarded" => FileStatusCode::Discarded, "Rejection" => FileStatusCode::FileStoreRejection, _ => FileStatusCode::Unreported },
                filestore_response: vec![],
                fault_location: None,
            })),
            Direction::ToSender,
        ),
        "Prompt" => (
            PDUPayload::Directive(Operations::Prompt(PromptPDU {
                nak_or_keep_alive: if d["opt"].as_str().unwrap() == "Nak" { NakOrKeepAlive::Nak } else { NakOrKeepAlive::KeepAlive },
            })),
            Direction::ToReceiver,
        ),
        "Metadata" => (
            PDUPayload::Directive(Operations::Metadata(MetadataPDU {
                closure_requested: w.metadata.closure_requested,
                checksum_type: w.metadata.checksum_type,
                file_size: w.metadata.file_size,
                source_filename: w.metadata.source_filename.clone(),
                destination_filename: w.metadata.destination_filename.clone(),
                options: w.metadata.filestore_requests.iter().map(|r| MetadataTLV::FileStoreRequest(r.clone())).collect(),
            })),
            Direction::ToReceiver,
        ),
        "EOF" => (
            PDUPayload::Directive(Operations::EoF(EndOfFile {
                condition: cond_from(d["cond"].as_str().unwrap_or("NoError")),
                // adversarial peers: "ckok": false = a checksum that is not the source's, "size" = another size
                checksum: if d["ckok"].as_bool().unwrap_or(true) { w.src_ck } else { w.src_ck.wrapping_add(0x0101_0101) },
                file_size: d["size"].as_u64().map(|n| n * sc).unwrap_or(w.metadata.file_size),
                fault_location: None,
            })),
            Direction::ToReceiver,
        ),
        "Data" => {
            let off = (u(d, "off") * sc) as usize;
            let end = (off + (u(d, "len") * sc) as usize).min(w.src.len());
            (
                PDUPayload::FileData(FileDataPDU::Unsegmented(UnsegmentedFileData { offset: off as u64, file_data: w.src[off.min(end)..end].to_vec() })),
                Direction::ToReceiver,
            )
        }
        _ => panic!("unknown inject kind {k}"),
    };
    let pdu_type = if matches!(payload, PDUPayload::FileData(_)) { PDUType::FileData } else { PDUType::FileDirective };
    PDU {
        header: PDUHeader { pdu_type, direction: dir, pdu_data_field_length: payload.encoded_len(FileSizeFlag::Small), ..w.hdr.clone() },
        payload,
    }
}

async fn drain(w: &mut World) -> Vec<Value> {
    for _ in 0..4 {
        tokio::task::yield_now().await;
    }
    let mut v = vec![];
    while let Ok(i) = w.s_ind_rx.try_recv() {
        v.push(ind_json("S", &i, w.sc));
    }
    while let Ok(i) = w.r_ind_rx.try_recv() {
        v.push(ind_json("R", &i, w.sc));
    }
    v
}

async fn run_script(script: &Value, out: &mut impl Write) {
    let cfg = &script["cfg"];
    let mut w = World::new(cfg);
    w.start_sender();
    let init_ind = drain(&mut w).await;
    writeln!(out, "{}", json!({"a": "Reset", "id": script["id"], "cfg": cfg, "ind": init_ind,
                               "steps": script["path"].as_array().map(|a| a.len()).unwrap_or(0)})).unwrap();
    let mut lines: Vec<Value> = vec![];
    // the script, then (unless disabled) an EPILOGUE: the real system is run on, fault-free and with urgent
    // local steps, until both transactions have ended or nothing can happen any more - so that every replay
    // is judged on a complete execution (termination, final outcome), not only on the model's path
    let mut pending: std::collections::VecDeque<Value> = script["path"].as_array().unwrap().iter().cloned().collect();
    let epilogue_max = if cfg["epilogue"].as_bool().unwrap_or(true) { 80 } else { 0 };
    let bound = (u(cfg, "limit") + 1) * (cfg["to"][0].as_u64().unwrap() + cfg["to"][1].as_u64().unwrap() + cfg["to"][2].as_u64().unwrap()) + u(cfg, "delay") + 1;
    let mut epi = 0;
    let mut idle_jump = false;
    let mut idx: usize = 0;
    loop {
        let (step, is_epi) = match pending.pop_front() {
            Some(s) => (s, false),
            None => {
                if epi >= epilogue_max {
                    break;
                }
                match epilogue_step(&w, bound, &mut idle_jump) {
                    Some(s) => {
                        epi += 1;
                        (s, true)
                    }
                    None => break,
                }
            }
        };
        // A1 (timers are serviced) holds by construction of TLC's scripts on code that conforms to the model.  A script
        // computed for the MODEL and replayed on code that has drifted from it (continuations, escalations) must not be
        // allowed to break it (nor A2): a tick never jumps over a real deadline - the due handler runs first / in between.
        let (step, is_epi, is_auto) = if !is_epi && step["a"] == "Tick" {
            let su = w.sender.as_ref().map(|t| t.verif_until_timeout());
            let ru = w.receiver.as_ref().map(|t| t.verif_until_timeout());
            let d = step["d"].as_u64().unwrap();
            let next = [su, ru].iter().flatten().filter(|x| **x != Duration::MAX).map(|x| (x.as_millis() as u64 + 999) / 1000).min();
            // A2 (local steps are urgent): a task that has a PDU to send sends it before time passes
            if w.sender.as_ref().map(|t| t.verif_has_pdu_to_send()).unwrap_or(false) {
                pending.push_front(step.clone());
                (json!({"a": "S_Send"}), false, true)
            } else if w.receiver.as_ref().map(|t| t.verif_has_pdu_to_send()).unwrap_or(false) {
                pending.push_front(step.clone());
                (json!({"a": "R_Send"}), false, true)
            } else if su == Some(Duration::ZERO) {
                pending.push_front(step.clone());
                (json!({"a": "S_Timeout"}), false, true)
            } else if ru == Some(Duration::ZERO) {
                pending.push_front(step.clone());
                (json!({"a": "R_Timeout"}), false, true)
            } else if next.map(|n| n >= 1 && n < d).unwrap_or(false) {
                let n = next.unwrap();
                pending.push_front(json!({"a": "Tick", "d": d - n}));
                (json!({"a": "Tick", "d": n}), false, true)
            } else {
                (step, is_epi, false)
            }
        } else {
            (step, is_epi, false)
        };
        let step = &step;
        let a = step["a"].as_str().unwrap();
        let mut res = String::from("ok");
        let mut outp: Vec<Value> = vec![];
        let mut delivered: Value = Value::Null;
        if a == "Inject" {
            delivered = step["pdu"].clone();
        }
        match a {
            "S_Send" | "R_Send" => {
                let is_s = a == "S_Send";
                let enabled = if is_s {
                    w.sender.as_ref().map(|t| t.verif_has_pdu_to_send()).unwrap_or(false)
                } else {
                    w.receiver.as_ref().map(|t| t.verif_has_pdu_to_send()).unwrap_or(false)
                };
                if !enabled {
                    res = "disabled".into();
                } else if is_s {
                    let tx = w.s_out_tx.clone();
                    let permit = tx.try_reserve().unwrap();
                    let t = w.sender.as_mut().unwrap();
                    let r = catch_unwind(AssertUnwindSafe(|| t.verif_send_pdu(permit))).map_err(panic_msg);
                    res = w.settle_sender(r);
                    while let Ok((_d, pdu)) = w.s_out_rx.try_recv() {
                        let bytes = pdu.clone().encode();
                        let mut j = pdu_json(&pdu, &w.truth(), bytes.len());
                        j["dir"] = json!("c2r");
                        outp.push(j);
                        w.c2r.push(bytes);
                    }
                } else {
                    let tx = w.r_out_tx.clone();
                    let permit = tx.try_reserve().unwrap();
                    let t = w.receiver.as_mut().unwrap();
                    let r = catch_unwind(AssertUnwindSafe(|| t.verif_send_pdu(permit))).map_err(panic_msg);
                    res = w.settle_receiver(r);
                    while let Ok((_d, pdu)) = w.r_out_rx.try_recv() {
                        let bytes = pdu.clone().encode();
                        let mut j = pdu_json(&pdu, &w.truth(), bytes.len());
                        j["dir"] = json!("c2s");
                        outp.push(j);
                        w.c2s.push(bytes);
                    }
                }
            }
            "Deliver" | "Drop" | "Dup" | "Corrupt" => {
                let ch = step["ch"].as_str().unwrap();
                let i = step["i"].as_u64().unwrap() as usize;
                let q = if ch == "c2r" { &mut w.c2r } else { &mut w.c2s };
                if i == 0 || i > q.len() {
                    res = "disabled".into();
                } else if a == "Drop" {
                    q.remove(i - 1);
                } else if a == "Dup" {
                    let c = q[i - 1].clone();
                    q.insert(i, c);
                } else if a == "Corrupt" {
                    let bit = step["bit"].as_u64().unwrap_or(0) as usize;
                    let n = q[i - 1].len();
                    let pos = 4 + (bit / 8) % (n - 4).max(1);
                    q[i - 1][pos.min(n - 1)] ^= 1 << (bit % 8);
                } else {
                    let bytes = q.remove(i - 1);
                    match PDU::decode(&mut &bytes[..]) {
                        Err(e) => {
                            res = format!("undecodable: {e}");
                            delivered = json!({"k": "Garbage"});
                        }
                        Ok(pdu) => {
                            delivered = pdu_json(&pdu, &w.truth(), bytes.len());
                            if ch == "c2r" {
                                if w.receiver.is_none() {
                                    // lib.rs: first PDU spawns the receive transaction; a PDU for an ended
                                    // one spawns a fresh transaction with the same id
                                    w.start_receiver(&pdu.header);
                                    delivered["spawn"] = json!(w.r_incarnation);
                                }
                                let t = w.receiver.as_mut().unwrap();
                                let r = catch_unwind(AssertUnwindSafe(|| t.process_pdu(pdu))).map_err(panic_msg);
                                res = w.settle_receiver(r);
                            } else if w.sender.is_none() {
                                res = "no_sender".into();
                            } else {
                                let t = w.sender.as_mut().unwrap();
                                let r = catch_unwind(AssertUnwindSafe(|| t.process_pdu(pdu))).map_err(panic_msg);
                                res = w.settle_sender(r);
                            }
                        }
                    }
                }
            }
            "Inject" => {
                let pdu = inject_pdu(&w, &step["pdu"]);
                let bytes = pdu.encode();
                if step["ch"].as_str().unwrap() == "c2r" { w.c2r.push(bytes) } else { w.c2s.push(bytes) }
            }
            "Blackout" => {
                // the model marks a direction as dark; the losses themselves are Drop steps
                w.black.insert(step["ch"].as_str().unwrap().to_string());
            }
            "Tick" => {
                tokio::time::advance(Duration::from_secs(step["d"].as_u64().unwrap())).await;
            }
            "S_Timeout" => {
                let en = w.sender.as_ref().map(|t| t.verif_until_timeout() == Duration::ZERO).unwrap_or(false);
                if !en {
                    res = "disabled".into();
                } else {
                    let t = w.sender.as_mut().unwrap();
                    let r = catch_unwind(AssertUnwindSafe(|| t.handle_timeout())).map_err(panic_msg);
                    res = w.settle_sender(r);
                }
            }
            "R_Timeout" => {
                let en = w.receiver.as_ref().map(|t| t.verif_until_timeout() == Duration::ZERO).unwrap_or(false);
                if !en {
                    res = "disabled".into();
                } else {
                    let t = w.receiver.as_mut().unwrap();
                    let r = catch_unwind(AssertUnwindSafe(|| t.handle_timeout())).map_err(panic_msg);
                    res = w.settle_receiver(r);
                }
            }
            "S_Cmd" => {
                if let Some(t) = w.sender.as_mut() {
                    let c = step["c"].as_str().unwrap();
                    let r = catch_unwind(AssertUnwindSafe(|| match c {
                        "Cancel" => t.cancel(),
                        "Suspend" => t.suspend(),
                        "Resume" => t.resume(),
                        "PromptNak" => {
                            t.verif_prepare_prompt(NakOrKeepAlive::Nak);
                            Ok(())
                        }
                        "PromptKeepAlive" => {
                            t.verif_prepare_prompt(NakOrKeepAlive::KeepAlive);
                            Ok(())
                        }
                        "Report" => t.send_report(None),
                        "Abandon" => {
                            t.shutdown();
                            Ok(())
                        }
                        _ => Ok(()),
                    }))
                    .map_err(panic_msg);
                    res = w.settle_sender(r);
                } else {
                    res = "disabled".into();
                }
            }
            "R_Cmd" => {
                if let Some(t) = w.receiver.as_mut() {
                    let c = step["c"].as_str().unwrap();
                    let r = catch_unwind(AssertUnwindSafe(|| match c {
                        "Cancel" => t.cancel(),
                        "Suspend" => t.suspend(),
                        "Resume" => t.resume(),
                        "Report" => t.send_report(None),
                        "Abandon" => {
                            t.shutdown();
                            Ok(())
                        }
                        _ => Ok(()),
                    }))
                    .map_err(panic_msg);
                    res = w.settle_receiver(r);
                } else {
                    res = "disabled".into();
                }
            }
            _ => {
                res = "unknown".into();
            }
        }
        let ind = drain(&mut w).await;
        let now = tokio::time::Instant::now().duration_since(w.t0);
        let ssnap = match w.sender.as_mut() {
            Some(t) => {
                let mut v = send_snap(&t.verif_snapshot(), w.sc, w.src_ck);
                v["alive"] = json!(true);
                v
            }
            None => json!({"alive": false, "why": w.s_dead.clone().unwrap_or_default()}),
        };
        let rsnap = match w.receiver.as_ref() {
            Some(t) => {
                let mut v = recv_snap(&t.verif_snapshot(), w.sc, w.src_ck);
                v["alive"] = json!(true);
                v
            }
            None => json!({"alive": false, "why": w.r_dead.clone().unwrap_or_default()}),
        };
        idx += 1;
        let mut line = json!({
            "i": idx,
            "epi": is_epi, "auto": is_auto,
            "t": now.as_secs(),
            "a": a,
            "res": res,
            "out": outp,
            "ind": ind,
            "S": ssnap,
            "R": rsnap,
            "salive": w.s_alive(),
            "ralive": w.r_alive(),
            "rinc": w.r_incarnation,
            "dest": w.dest(),
            "tree": w.tree(),
            "nc2r": w.c2r.len(),
            "nc2s": w.c2s.len(),
        });
        line["ch"] = if step["ch"].is_null() { json!("") } else { step["ch"].clone() };
        line["idx"] = if step["i"].is_null() { json!(0) } else { step["i"].clone() };
        line["d"] = if step["d"].is_null() { json!(0) } else { step["d"].clone() };
        line["c"] = if step["c"].is_null() { json!("") } else { step["c"].clone() };
        line["pin"] = if delivered.is_null() { json!({"k": "None"}) } else { delivered };
        lines.push(line);
    }
    for l in lines {
        writeln!(out, "{}", l).unwrap();
    }
    let _ = (&w.cfg, &w.s_root);
}

fn main() {
    std::panic::set_hook(Box::new(|_| {}));
    let a: Vec<String> = std::env::args().collect();
    let inp = std::io::BufReader::new(std::fs::File::open(&a[1]).unwrap());
    let mut out = std::io::BufWriter::new(std::fs::File::create(&a[2]).unwrap());
    let mut n = 0u64;
    for line in inp.lines() {
        let line = line.unwrap();
        if line.trim().is_empty() {
            continue;
        }
        let script: Value = serde_json::from_str(&line).unwrap();
        let rt = tokio::runtime::Builder::new_current_thread().enable_all().start_paused(true).build().unwrap();
        rt.block_on(run_script(&script, &mut out));
        drop(rt);
        n += 1;
    }
    out.flush().unwrap();
    println!("{}", json!({"scripts": n}));
}
