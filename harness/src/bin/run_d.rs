//! Level D: real `Daemon`s on one paused current-thread tokio runtime, connected by an in-memory
//! network owned by the harness (fault plans, stray PDUs), with the verification hooks feeding an
//! event log.  Output: one raw ndjson event log per scenario (converted to specification traces by
//! lib/dconv.py and validated by TLC).
//!
//! usage: run_d <scenarios.ndjson> <out.ndjson>
use async_trait::async_trait;
use camino::Utf8PathBuf;
use cfdp_core::{
    daemon::{EntityConfig, Indication, NakProcedure, PutRequest, UserPrimitive},
    filestore::{ChecksumType, FileChecksum, NativeFileStore},
    pdu::*,
    transaction::TransactionID,
};
use cfdp_daemon::{
    transport::PDUTransport,
    verif::{self, Event, Role},
    Daemon,
};
use cfdp_verif_harness::proj::*;
use serde_json::{json, Value};
use std::collections::HashMap;
use std::io::{BufRead, Error as IoError, Write};
use std::sync::{Arc, Mutex};
use std::time::Duration;
use tokio::sync::mpsc::{channel, Receiver, Sender};
use tokio::sync::oneshot;


fn now_ms(t0: tokio::time::Instant) -> u64 {
    tokio::time::Instant::now().duration_since(t0).as_millis() as u64
}

/// what the harness knows about a Put (to judge PDU contents)
#[derive(Clone)]
#[allow(dead_code)]
struct PutInfo {
    idx: usize,
    src_entity: u64,
    dst_entity: u64,
    src: Vec<u8>,
    src_ck: u32,
    src_name: String,
    dst_name: String,
    closure: bool,
    nreqs: usize,
    mode: TransmissionMode,
}

struct Shared {
    t0: tokio::time::Instant,
    log: Vec<Value>,
    unit: u64,
    seg_bytes: u64,
    crc: CRCFlag,
    puts: HashMap<(u64, u64), PutInfo>, // (source entity, seq) -> info
    roots: HashMap<u64, std::path::PathBuf>,
    inbound: HashMap<u64, Sender<PDU>>,
    // fault plan: per (from,to): index (1-based, in order of emission) -> action
    plan: HashMap<(u64, u64), HashMap<u64, Value>>,
    counts: HashMap<(u64, u64), u64>,
    blackout_after: HashMap<(u64, u64), u64>,
    in_flight: HashMap<(u64, u64), i64>, // per transaction key: PDUs held by the network
}

type Sh = Arc<Mutex<Shared>>;

fn idv(v: &VariableID) -> u64 {
    v.to_u64()
}
fn txkey(id: &TransactionID) -> (u64, u64) {
    (idv(&id.0), idv(&id.1))
}

fn push(sh: &Sh, mut v: Value) {
    let mut s = sh.lock().unwrap();
    v["t"] = json!(now_ms(s.t0));
    v["n"] = json!(s.log.len());
    s.log.push(v);
}

fn pdu_proj(s: &Shared, pdu: &PDU) -> Value {
    let key = (idv(&pdu.header.source_entity_id), idv(&pdu.header.transaction_sequence_number));
    let bytes = pdu.clone().encode().len();
    match s.puts.get(&key) {
        Some(info) => {
            let hdr = PDUHeader {
                version: U3::One,
                pdu_type: PDUType::FileDirective,
                direction: Direction::ToReceiver,
                transmission_mode: info.mode,
                crc_flag: s.crc,
                large_file_flag: FileSizeFlag::Small,
                pdu_data_field_length: 0,
                segmentation_control: SegmentationControl::NotPreserved,
                segment_metadata_flag: SegmentedData::NotPresent,
                source_entity_id: pdu.header.source_entity_id,
                transaction_sequence_number: pdu.header.transaction_sequence_number,
                destination_entity_id: EntityID::from(info.dst_entity as u16),
            };
            let t = Truth {
                src: &info.src,
                src_ck: info.src_ck,
                src_name: &info.src_name,
                dst_name: &info.dst_name,
                sc: Scale { unit: s.unit },
                hdr: &hdr,
                closure: info.closure,
                nreqs: info.nreqs,
                seg_bytes: s.seg_bytes,
            };
            pdu_json(pdu, &t, bytes)
        }
        None => json!({"k": "Unknown", "bytes": bytes}),
    }
}

// ------------------------------------------------------------------ network
struct MemTransport {
    me: u64,
    sh: Sh,
    rx: Receiver<PDU>,
}

fn deliver(sh: &Sh, from: u64, to: u64, bytes: Vec<u8>, key: (u64, u64)) {
    let tx = {
        let s = sh.lock().unwrap();
        s.inbound.get(&to).cloned()
    };
    match PDU::decode(&mut &bytes[..]) {
        Ok(pdu) => {
            if let Some(tx) = tx {
                let _ = tx.try_send(pdu);
            }
        }
        Err(e) => push(sh, json!({"k": "net_undecodable", "from": from, "to": to, "tx": [key.0, key.1], "err": e.to_string()})),
    }
}

#[async_trait]
impl PDUTransport for MemTransport {
    async fn request(&mut self, destination: VariableID, pdu: PDU) -> Result<(), IoError> {
        let to = idv(&destination);
        let from = self.me;
        let key = (idv(&pdu.header.source_entity_id), idv(&pdu.header.transaction_sequence_number));
        let mut bytes = pdu.clone().encode();
        let (action, k) = {
            let mut s = self.sh.lock().unwrap();
            let c = s.counts.entry((from, to)).or_insert(0);
            *c += 1;
            let k = *c;
            let black = s.blackout_after.get(&(from, to)).map(|b| k > *b).unwrap_or(false);
            let a = if black { json!({"a": "drop", "black": true}) } else { s.plan.get(&(from, to)).and_then(|m| m.get(&k)).cloned().unwrap_or(json!({"a": "pass"})) };
            (a, k)
        };
        let proj = { let s = self.sh.lock().unwrap(); pdu_proj(&s, &pdu) };
        let a = action["a"].as_str().unwrap_or("pass").to_string();
        push(&self.sh, json!({"k": "net", "from": from, "to": to, "idx": k, "tx": [key.0, key.1], "action": action, "pdu": proj}));
        match a.as_str() {
            "drop" => {}
            "dup" => {
                deliver(&self.sh, from, to, bytes.clone(), key);
                deliver(&self.sh, from, to, bytes, key);
            }
            "corrupt" => {
                let n = bytes.len();
                let pos = 4 + (action["bit"].as_u64().unwrap_or(0) as usize / 8) % (n - 4).max(1);
                bytes[pos.min(n - 1)] ^= 1 << (action["bit"].as_u64().unwrap_or(0) % 8);
                deliver(&self.sh, from, to, bytes, key);
            }
            "delay" => {
                let d = action["d"].as_u64().unwrap_or(1);
                let sh = self.sh.clone();
                {
                    let mut s = sh.lock().unwrap();
                    *s.in_flight.entry(key).or_insert(0) += 1;
                }
                tokio::task::spawn(async move {
                    tokio::time::sleep(Duration::from_secs(d)).await;
                    {
                        let mut s = sh.lock().unwrap();
                        *s.in_flight.entry(key).or_insert(0) -= 1;
                    }
                    push(&sh, json!({"k": "net_release", "from": from, "to": to, "tx": [key.0, key.1]}));
                    deliver(&sh, from, to, bytes, key);
                });
            }
            _ => deliver(&self.sh, from, to, bytes, key),
        }
        Ok(())
    }

    async fn receive(&mut self) -> Result<PDU, IoError> {
        match self.rx.recv().await {
            Some(p) => Ok(p),
            None => std::future::pending().await,
        }
    }
}

// ------------------------------------------------------------------ scenario helpers
fn cond_from(name: &str) -> Condition {
    match name {
        "PositiveLimitReached" => Condition::PositiveLimitReached,
        "NakLimitReached" => Condition::NakLimitReached,
        "InactivityDetected" => Condition::InactivityDetected,
        "FileChecksumFailure" => Condition::FileChecksumFailure,
        "FilesizeError" => Condition::FilesizeError,
        "FileStoreRejection" => Condition::FileStoreRejection,
        "CancelReceived" => Condition::CancelReceived,
        _ => Condition::NoError,
    }
}
fn action_from(name: &str) -> FaultHandlerAction {
    match name {
        "Ignore" => FaultHandlerAction::Ignore,
        "Suspend" => FaultHandlerAction::Suspend,
        "Abandon" => FaultHandlerAction::Abandon,
        _ => FaultHandlerAction::Cancel,
    }
}
fn fsaction_from(name: &str) -> FileStoreAction {
    match name {
        "CreateFile" => FileStoreAction::CreateFile,
        "DeleteFile" => FileStoreAction::DeleteFile,
        "RenameFile" => FileStoreAction::RenameFile,
        "AppendFile" => FileStoreAction::AppendFile,
        "ReplaceFile" => FileStoreAction::ReplaceFile,
        "CreateDirectory" => FileStoreAction::CreateDirectory,
        "RemoveDirectory" => FileStoreAction::RemoveDirectory,
        "DenyFile" => FileStoreAction::DenyFile,
        _ => FileStoreAction::DenyDirectory,
    }
}
fn cell_bytes(v: u64, unit: u64) -> Vec<u8> {
    let mut b = vec![0u8; unit as usize];
    if unit >= 4 {
        let w: u32 = match v { 0 => 0, 1 => 1, 2 => 0xFFFF_FFFF, x => x as u32 };
        b[..4].copy_from_slice(&w.to_be_bytes());
    } else {
        b[0] = match v { 2 => 0xFF, x => x as u8 };
    }
    b
}

fn fs_state(s: &Shared, key: (u64, u64)) -> Value {
    // destination file and directory tree of the receiving entity of transaction `key`
    match s.puts.get(&key) {
        None => json!({"dest": {"st": "absent", "len": 0}, "tree": {}}),
        Some(info) => {
            let root = &s.roots[&info.dst_entity];
            let dest = match std::fs::read(root.join(&info.dst_name)) {
                Err(_) => json!({"st": "absent", "len": 0}),
                Ok(b) => {
                    let len = if b.len() as u64 % s.unit == 0 { (b.len() as u64 / s.unit) as i64 } else { -1 - b.len() as i64 };
                    json!({"st": if b == info.src { "eq" } else { "diff" }, "len": len})
                }
            };
            let mut m = serde_json::Map::new();
            if let Ok(rd) = std::fs::read_dir(root) {
                for e in rd.flatten() {
                    let name = e.file_name().to_string_lossy().to_string();
                    if name.starts_with("dst") || name.starts_with("src") {
                        continue;
                    }
                    if e.path().is_dir() {
                        m.insert(name, json!(["d", 0]));
                    } else {
                        m.insert(name, json!(["f", e.metadata().map(|x| x.len()).unwrap_or(0)]));
                    }
                }
            }
            json!({"dest": dest, "tree": Value::Object(m)})
        }
    }
}

fn install_sink(sh: Sh) {
    let sh2 = sh.clone();
    verif::set_sink(Some(Box::new(move |ev: Event| {
        let role_s = |r: Role| if r == Role::Send { "S" } else { "R" };
        let v = match ev {
            Event::TaskStart { role, id } => json!({"k": "task_start", "role": role_s(role), "tx": [idv(&id.0), idv(&id.1)]}),
            Event::TaskOk { role, id } => json!({"k": "task_ok", "role": role_s(role), "tx": [idv(&id.0), idv(&id.1)]}),
            Event::TaskEnd { role, id, panicking } => json!({"k": "task_end", "role": role_s(role), "tx": [idv(&id.0), idv(&id.1)], "panicking": panicking}),
            Event::LoopSend { id, snap } => {
                let s = sh2.lock().unwrap();
                let key = txkey(&id);
                let ck = s.puts.get(&key).map(|p| p.src_ck).unwrap_or(0);
                let inflight = s.in_flight.get(&key).cloned().unwrap_or(0);
                json!({"k": "loop", "role": "S", "tx": [key.0, key.1], "snap": send_snap(&snap, Scale { unit: s.unit }, ck), "fs": fs_state(&s, key), "inflight": inflight})
            }
            Event::LoopRecv { id, snap } => {
                let s = sh2.lock().unwrap();
                let key = txkey(&id);
                let ck = s.puts.get(&key).map(|p| p.src_ck).unwrap_or(0);
                let inflight = s.in_flight.get(&key).cloned().unwrap_or(0);
                json!({"k": "loop", "role": "R", "tx": [key.0, key.1], "snap": recv_snap(&snap, Scale { unit: s.unit }, ck), "fs": fs_state(&s, key), "inflight": inflight})
            }
            Event::Enter { role, id, what, pdu, arg } => {
                let s = sh2.lock().unwrap();
                let p = pdu.as_ref().map(|p| pdu_proj(&s, p));
                // the ids in the header of the PDU handed to this transaction (C11: they must be the transaction's own)
                let hid = pdu.as_ref().map(|p| vec![idv(&p.header.source_entity_id), idv(&p.header.transaction_sequence_number)]);
                json!({"k": "enter", "role": role_s(role), "tx": [idv(&id.0), idv(&id.1)], "what": what, "pdu": p, "arg": arg, "hid": hid})
            }
            Event::PduOut { role, id, pdu } => {
                let s = sh2.lock().unwrap();
                json!({"k": "out", "role": role_s(role), "tx": [idv(&id.0), idv(&id.1)], "pdu": pdu_proj(&s, &pdu)})
            }
            Event::Ind { role, id, indication } => {
                let s = sh2.lock().unwrap();
                json!({"k": "ind", "role": role_s(role), "tx": [idv(&id.0), idv(&id.1)], "ind": ind_json(role_s(role), &indication, Scale { unit: s.unit })})
            }
            Event::Route { entity, peer, key, to_sender, outcome } => json!({"k": "route", "ent": idv(&entity), "peer": idv(&peer), "tx": [idv(&key.0), idv(&key.1)], "to_sender": to_sender, "outcome": outcome}),
            Event::Put { entity, id } => json!({"k": "put", "ent": idv(&entity), "tx": [idv(&id.0), idv(&id.1)]}),
            Event::Reap { entity, id, ok } => json!({"k": "reap", "ent": idv(&entity), "tx": id.map(|i| vec![idv(&i.0), idv(&i.1)]), "ok": ok}),
        };
        push(&sh2, v);
    })));
}

async fn run_scenario(sc: &Value) -> Vec<Value> {
    let cfg = &sc["cfg"];
    let unit = cfg["unit"].as_u64().unwrap_or(8);
    let seg_bytes = cfg["seg"].as_u64().unwrap_or(2) * unit;
    let crc = if cfg["crc"].as_bool().unwrap_or(false) { CRCFlag::Present } else { CRCFlag::NotPresent };
    let cktype = if cfg["cksum"].as_str().unwrap_or("modular") == "null" { ChecksumType::Null } else { ChecksumType::Modular };
    let t0 = tokio::time::Instant::now();
    let sh: Sh = Arc::new(Mutex::new(Shared {
        t0,
        log: vec![],
        unit,
        seg_bytes,
        crc,
        puts: HashMap::new(),
        roots: HashMap::new(),
        inbound: HashMap::new(),
        plan: HashMap::new(),
        counts: HashMap::new(),
        blackout_after: HashMap::new(),
        in_flight: HashMap::new(),
    }));
    // fault plan
    if let Some(f) = sc["faults"].as_object() {
        for (link, v) in f {
            let mut it = link.split('-');
            let from: u64 = it.next().unwrap().parse().unwrap();
            let to: u64 = it.next().unwrap().parse().unwrap();
            let mut s = sh.lock().unwrap();
            if let Some(b) = v["blackout_after"].as_u64() {
                s.blackout_after.insert((from, to), b);
            }
            let m = s.plan.entry((from, to)).or_default();
            for a in v["at"].as_array().cloned().unwrap_or_default() {
                m.insert(a["k"].as_u64().unwrap(), a.clone());
            }
        }
    }
    install_sink(sh.clone());

    let mut handlers = HashMap::new();
    if let Some(h) = cfg["handlers"].as_object() {
        for (k, v) in h {
            handlers.insert(cond_from(k), action_from(v.as_str().unwrap()));
        }
    }
    let delay = Duration::from_secs(cfg["delay"].as_u64().unwrap_or(0));
    let econf = EntityConfig {
        fault_handler_override: handlers,
        file_size_segment: seg_bytes as u16,
        default_transaction_max_count: cfg["limit"].as_u64().unwrap_or(2) as u32,
        inactivity_timeout: cfg["to"][0].as_i64().unwrap_or(4),
        ack_timeout: cfg["to"][1].as_i64().unwrap_or(2),
        nak_timeout: cfg["to"][2].as_i64().unwrap_or(3),
        crc_flag: crc,
        closure_requested: cfg["closure"].as_bool().unwrap_or(false),
        checksum_type: cktype,
        nak_procedure: if cfg["nakproc"].as_str().unwrap_or("def") == "imm" { NakProcedure::Immediate(delay) } else { NakProcedure::Deferred(delay) },
    };

    let entities: Vec<u64> = sc["entities"].as_array().unwrap().iter().map(|e| e.as_u64().unwrap()).collect();
    let tmp = tempfile::tempdir().unwrap();
    let mut prim_tx: HashMap<u64, Sender<UserPrimitive>> = HashMap::new();
    let mut ind_rx: HashMap<u64, Receiver<Indication>> = HashMap::new();
    let mut daemon_handles = vec![];
    for &e in &entities {
        let root = tmp.path().join(format!("e{e}"));
        std::fs::create_dir_all(&root).unwrap();
        if let Some(pre) = cfg["pre"].as_object() {
            for (name, p) in pre {
                if p[0].as_str().unwrap() == "d" {
                    std::fs::create_dir_all(root.join(name)).unwrap();
                } else {
                    std::fs::write(root.join(name), vec![b'x'; p[1].as_u64().unwrap() as usize]).unwrap();
                }
            }
        }
        let (in_tx, in_rx) = channel::<PDU>(10_000);
        {
            let mut s = sh.lock().unwrap();
            s.roots.insert(e, root.clone());
            s.inbound.insert(e, in_tx);
        }
        let transport: Box<dyn PDUTransport + Send> = Box::new(MemTransport { me: e, sh: sh.clone(), rx: in_rx });
        let peers: Vec<EntityID> = entities.iter().filter(|x| **x != e || sc["self_transport"].as_bool().unwrap_or(false)).map(|x| EntityID::from(*x as u16)).collect();
        let mut tmap: HashMap<Vec<EntityID>, Box<dyn PDUTransport + Send>> = HashMap::new();
        tmap.insert(peers, transport);
        let (ptx, prx) = channel::<UserPrimitive>(100);
        let (itx, irx) = channel::<Indication>(100_000);
        prim_tx.insert(e, ptx);
        ind_rx.insert(e, irx);
        let fs = Arc::new(NativeFileStore::new(Utf8PathBuf::from_path_buf(root).unwrap()));
        let mut d = Daemon::new(EntityID::from(e as u16), TransactionSeqNum::from(sc["seq0"].as_u64().unwrap_or(0) as u16), tmap, fs, HashMap::new(), econf.clone(), prx, itx);
        let sh3 = sh.clone();
        daemon_handles.push((e, tokio::task::spawn(async move {
            let r = d.manage_transactions().await;
            push(&sh3, json!({"k": "daemon_exit", "ent": e, "ok": r.is_ok(), "err": r.err().map(|x| x.to_string())}));
        })));
    }

    // timeline of user actions (puts, commands, strays), sorted by time in ms
    let mut timeline: Vec<(u64, Value)> = vec![];
    for (i, p) in sc["puts"].as_array().cloned().unwrap_or_default().into_iter().enumerate() {
        let mut p = p;
        p["kind"] = json!("put");
        p["idx"] = json!(i);
        timeline.push((p["at"].as_u64().unwrap_or(0), p));
    }
    for c in sc["cmds"].as_array().cloned().unwrap_or_default() {
        let mut c = c;
        c["kind"] = json!("cmd");
        timeline.push((c["at"].as_u64().unwrap_or(0), c));
    }
    for c in sc["strays"].as_array().cloned().unwrap_or_default() {
        let mut c = c;
        c["kind"] = json!("stray");
        timeline.push((c["at"].as_u64().unwrap_or(0), c));
    }
    timeline.sort_by_key(|x| x.0);
    let horizon = sc["horizon"].as_u64().unwrap_or(120_000);
    let mut put_ids: HashMap<usize, TransactionID> = HashMap::new();
    let mut put_counts: HashMap<u64, u64> = HashMap::new();

    for (at, item) in timeline {
        let now = now_ms(t0);
        if at > now {
            tokio::time::sleep(Duration::from_millis(at - now)).await;
        }
        match item["kind"].as_str().unwrap() {
            "put" => {
                let i = item["idx"].as_u64().unwrap() as usize;
                let from = item["from"].as_u64().unwrap();
                let to = item["to"].as_u64().unwrap();
                let isfile = item["isfile"].as_bool().unwrap_or(true);
                let mut src = vec![];
                for c in item["file"].as_array().cloned().unwrap_or_default() {
                    src.extend(cell_bytes(c.as_u64().unwrap(), unit));
                }
                let src_name = if isfile { format!("src{i}.bin") } else { String::new() };
                let dst_name = if isfile { format!("dst{i}.bin") } else { String::new() };
                let root = sh.lock().unwrap().roots[&from].clone();
                if isfile {
                    std::fs::write(root.join(&src_name), &src).unwrap();
                }
                let src_ck = if isfile { std::io::Cursor::new(src.clone()).checksum(cktype).unwrap() } else { 0 };
                let mode = if item["mode"].as_str().unwrap_or("ack") == "unack" { TransmissionMode::Unacknowledged } else { TransmissionMode::Acknowledged };
                let reqs: Vec<FileStoreRequest> = item["fsreqs"].as_array().cloned().unwrap_or_default().iter().map(|r| FileStoreRequest {
                    action_code: fsaction_from(r["a"].as_str().unwrap()),
                    first_filename: r["f1"].as_str().unwrap_or("").into(),
                    second_filename: r["f2"].as_str().unwrap_or("").into(),
                }).collect();
                let nreqs = reqs.len();
                let (otx, orx) = oneshot::channel();
                let req = PutRequest {
                    source_filename: src_name.clone().into(),
                    destination_filename: dst_name.clone().into(),
                    destination_entity_id: EntityID::from(to as u16),
                    transmission_mode: mode,
                    filestore_requests: reqs,
                    message_to_user: vec![],
                };
                // the transaction starts running before the daemon's answer reaches this task, so the
                // projector's knowledge of the Put is registered under the id the daemon is expected
                // to hand out (entity, next sequence number) and checked against the answer
                let k = put_counts.entry(from).or_insert(0u64);
                let predicted = (from, sc["seq0"].as_u64().unwrap_or(0) + *k);
                *k += 1;
                {
                    let mut s = sh.lock().unwrap();
                    s.puts.insert(predicted, PutInfo { idx: i, src_entity: from, dst_entity: to, src: src.clone(), src_ck, src_name: src_name.clone(), dst_name: dst_name.clone(), closure: econf.closure_requested, nreqs, mode });
                }
                let _ = prim_tx[&from].send(UserPrimitive::Put(req, otx)).await;
                // predict nothing: wait for the answer (the daemon answers before the task's first step)
                match orx.await {
                    Ok(id) => {
                        put_ids.insert(i, id);
                        push(&sh, json!({"k": "user_put", "put": i, "from": from, "to": to, "tx": [idv(&id.0), idv(&id.1)], "predicted": [predicted.0, predicted.1],
                                         "mode": item["mode"], "file": item["file"], "isfile": isfile, "fsreqs": item["fsreqs"]}));
                    }
                    Err(_) => push(&sh, json!({"k": "user_put_failed", "put": i, "from": from, "to": to})),
                }
            }
            "cmd" => {
                let put = item["put"].as_u64().unwrap() as usize;
                let ent = item["entity"].as_u64().unwrap();
                if let Some(id) = put_ids.get(&put).cloned() {
                    let c = item["c"].as_str().unwrap();
                    let prim = match c {
                        "Cancel" => Some(UserPrimitive::Cancel(id)),
                        "Suspend" => Some(UserPrimitive::Suspend(id)),
                        "Resume" => Some(UserPrimitive::Resume(id)),
                        "PromptNak" => Some(UserPrimitive::Prompt(id, NakOrKeepAlive::Nak)),
                        "PromptKeepAlive" => Some(UserPrimitive::Prompt(id, NakOrKeepAlive::KeepAlive)),
                        "Report" => {
                            let (rtx, rrx) = oneshot::channel();
                            let _ = prim_tx[&ent].send(UserPrimitive::Report(id, rtx)).await;
                            let r = tokio::time::timeout(Duration::from_millis(10), rrx).await;
                            push(&sh, json!({"k": "user_report", "ent": ent, "tx": [idv(&id.0), idv(&id.1)], "answered": matches!(r, Ok(Ok(_)))}));
                            None
                        }
                        _ => None,
                    };
                    if let Some(p) = prim {
                        push(&sh, json!({"k": "user_cmd", "ent": ent, "tx": [idv(&id.0), idv(&id.1)], "c": c}));
                        let _ = prim_tx[&ent].send(p).await;
                    }
                }
            }
            _ => {
                // stray PDU handed to an entity's transport as if it had arrived from the network
                let to = item["to"].as_u64().unwrap();
                let p = &item["pdu"];
                let payload = match p["k"].as_str().unwrap() {
                    "ACK" => PDUPayload::Directive(Operations::Ack(PositiveAcknowledgePDU {
                        directive: if p["of"].as_str().unwrap_or("EOF") == "Finished" { PDUDirective::Finished } else { PDUDirective::EoF },
                        directive_subtype_code: if p["of"].as_str().unwrap_or("EOF") == "Finished" { ACKSubDirective::Finished } else { ACKSubDirective::Other },
                        condition: Condition::NoError,
                        transaction_status: TransactionStatus::Active,
                    })),
                    "Finished" => PDUPayload::Directive(Operations::Finished(Finished { condition: Condition::NoError, delivery_code: DeliveryCode::Complete, file_status: FileStatusCode::Retained, filestore_response: vec![], fault_location: None })),
                    "NAK" => PDUPayload::Directive(Operations::Nak(NegativeAcknowledgmentPDU { start_of_scope: 0, end_of_scope: 16, segment_requests: vec![SegmentRequestForm { start_offset: 0, end_offset: 16 }] })),
                    "KeepAlive" => PDUPayload::Directive(Operations::KeepAlive(KeepAlivePDU { progress: 0 })),
                    "EOF" => PDUPayload::Directive(Operations::EoF(EndOfFile { condition: Condition::NoError, checksum: 0, file_size: 16, fault_location: None })),
                    "Prompt" => PDUPayload::Directive(Operations::Prompt(PromptPDU { nak_or_keep_alive: NakOrKeepAlive::Nak })),
                    "Metadata" => PDUPayload::Directive(Operations::Metadata(MetadataPDU { closure_requested: false, checksum_type: ChecksumType::Modular, file_size: 16, source_filename: "stray_src".into(), destination_filename: "stray_dst.bin".into(), options: vec![] })),
                    _ => PDUPayload::FileData(FileDataPDU::Unsegmented(UnsegmentedFileData { offset: 0, file_data: vec![7u8; 8] })),
                };
                let to_sender = p["dir"].as_str().unwrap_or("ToReceiver") == "ToSender";
                let pdu = PDU {
                    header: PDUHeader {
                        version: U3::One,
                        pdu_type: if matches!(payload, PDUPayload::FileData(_)) { PDUType::FileData } else { PDUType::FileDirective },
                        direction: if to_sender { Direction::ToSender } else { Direction::ToReceiver },
                        transmission_mode: if p["mode"].as_str().unwrap_or("ack") == "unack" { TransmissionMode::Unacknowledged } else { TransmissionMode::Acknowledged },
                        crc_flag: crc,
                        large_file_flag: FileSizeFlag::Small,
                        pdu_data_field_length: payload.encoded_len(FileSizeFlag::Small),
                        segmentation_control: SegmentationControl::NotPreserved,
                        segment_metadata_flag: SegmentedData::NotPresent,
                        source_entity_id: EntityID::from(p["src"].as_u64().unwrap() as u16),
                        transaction_sequence_number: TransactionSeqNum::from(p["seq"].as_u64().unwrap() as u16),
                        destination_entity_id: EntityID::from(p["dst"].as_u64().unwrap() as u16),
                    },
                    payload,
                };
                push(&sh, json!({"k": "stray", "to": to, "pdu": p}));
                let tx = sh.lock().unwrap().inbound.get(&to).cloned();
                if let Some(tx) = tx {
                    let _ = tx.try_send(pdu);
                }
            }
        }
        // drain indications that arrived meanwhile (they are also in the hook log; this keeps the channels empty)
        for rx in ind_rx.values_mut() {
            while rx.try_recv().is_ok() {}
        }
    }
    // let the system run until the horizon (virtual time; the runtime auto-advances when idle)
    let step = 1000;
    loop {
        let now = now_ms(t0);
        if now >= horizon {
            break;
        }
        tokio::time::sleep(Duration::from_millis(step)).await;
        for rx in ind_rx.values_mut() {
            while rx.try_recv().is_ok() {}
        }
    }
    // is every daemon still serving?  a Report for an unknown id must not kill it, a new Put must be accepted
    for &e in &entities {
        let alive = !daemon_handles.iter().find(|h| h.0 == e).unwrap().1.is_finished();
        push(&sh, json!({"k": "daemon_alive", "ent": e, "alive": alive}));
    }
    verif::set_sink(None);
    for (_, h) in daemon_handles {
        h.abort();
    }
    let s = sh.lock().unwrap();
    s.log.clone()
}

fn main() {
    std::panic::set_hook(Box::new(|_| {}));
    let a: Vec<String> = std::env::args().collect();
    let inp = std::io::BufReader::new(std::fs::File::open(&a[1]).unwrap());
    let mut out = std::io::BufWriter::new(std::fs::File::create(&a[2]).unwrap());
    let mut n = 0;
    for line in inp.lines() {
        let line = line.unwrap();
        if line.trim().is_empty() {
            continue;
        }
        let sc: Value = serde_json::from_str(&line).unwrap();
        let seed = sc["seed"].as_u64().unwrap_or(0);
        let rt = tokio::runtime::Builder::new_current_thread().enable_all().start_paused(true).rng_seed(tokio::runtime::RngSeed::from_bytes(&seed.to_le_bytes())).build().unwrap();
        let log = rt.block_on(run_scenario(&sc));
        drop(rt);
        writeln!(out, "{}", json!({"k": "scenario", "id": sc["id"], "sc": sc})).unwrap();
        for l in log {
            writeln!(out, "{}", l).unwrap();
        }
        n += 1;
    }
    out.flush().unwrap();
    println!("{}", json!({"scenarios": n}));
}
