//! C16: replay (datagram, truncation) sequences from the TLC graph of Transport.tla over a
//! real `UdpTransport` on 127.0.0.1 and record what `receive()` returns.
//!
//! usage: udp corpus                       -> JSON list of {name, crc, len}
//!        udp walk <paths.json>            -> JSON {results:[{path, outcomes:[..]}]}
//! A path is a list of [d, n]: send the first n bytes of corpus datagram d (1-based).
use cfdp_core::pdu::{CRCFlag, FileSizeFlag, PDUEncode, PDU};
use cfdp_daemon::transport::{PDUTransport, UdpTransport};
use cfdp_verif_harness::corpus::corpus;
use serde_json::{json, Value};
use std::collections::HashMap;
use std::time::Duration;
use tokio::net::UdpSocket;

fn full_corpus() -> Vec<(String, PDU)> {
    let mut v = vec![];
    for (crc, cn) in [(CRCFlag::NotPresent, "nocrc"), (CRCFlag::Present, "crc")] {
        for (n, p) in corpus(crc, FileSizeFlag::Small) {
            v.push((format!("{n}/{cn}"), p));
        }
    }
    // the other identifier widths (the header length the transport could be tempted to compute depends on them)
    for (crc, cn) in [(CRCFlag::NotPresent, "nocrc"), (CRCFlag::Present, "crc")] {
        for (n, mut p) in corpus(crc, FileSizeFlag::Small) {
            if n != "eof" && n != "filedata" {
                continue;
            }
            p.header.source_entity_id = cfdp_core::pdu::VariableID::from(0x0102_0304_0506_0708_u64);
            p.header.destination_entity_id = cfdp_core::pdu::VariableID::from(0x1112_1314_1516_1718_u64);
            p.header.transaction_sequence_number = cfdp_core::pdu::VariableID::from(0x21_u8);
            v.push((format!("{n}/{cn}/id8"), p.clone()));
            if n == "eof" {
                p.header.source_entity_id = cfdp_core::pdu::VariableID::from(0x31_u8);
                p.header.destination_entity_id = cfdp_core::pdu::VariableID::from(0x32_u8);
                p.header.transaction_sequence_number = cfdp_core::pdu::VariableID::from(0x4142_4344_u32);
                v.push((format!("{n}/{cn}/id1"), p));
            }
        }
    }
    v
}

#[tokio::main(flavor = "current_thread")]
async fn main() {
    let a: Vec<String> = std::env::args().collect();
    let c = full_corpus();
    if a[1] == "corpus" {
        let l: Vec<Value> = c.iter().map(|(n, p)| json!({"name": n, "len": p.clone().encode().len()})).collect();
        println!("{}", json!(l));
        return;
    }
    let paths: Vec<Vec<(usize, usize)>> = serde_json::from_str(&std::fs::read_to_string(&a[2]).unwrap()).unwrap();
    let enc: Vec<Vec<u8>> = c.iter().map(|(_, p)| p.clone().encode()).collect();
    let sender = UdpSocket::bind("127.0.0.1:0").await.unwrap();
    let mut results = vec![];
    for path in paths {
        // a fresh transport (fresh receive buffer) per path
        let sock = UdpSocket::bind("127.0.0.1:0").await.unwrap();
        let addr = sock.local_addr().unwrap();
        let mut tr = UdpTransport::try_from((sock, HashMap::new())).unwrap();
        let mut outcomes = vec![];
        for (d, n) in &path {
            let bytes = &enc[d - 1][..*n];
            sender.send_to(bytes, addr).await.unwrap();
            let r = tokio::time::timeout(Duration::from_secs(5), tr.receive()).await;
            let o = match r {
                Err(_) => json!({"o": "timeout"}),
                Ok(Err(e)) => json!({"o": "reject", "err": e.to_string()}),
                Ok(Ok(p)) => {
                    if p == c[d - 1].1 {
                        json!({"o": "accept", "same": true})
                    } else {
                        json!({"o": "accept", "same": false, "got": format!("{:?}", p)})
                    }
                }
            };
            outcomes.push(o);
        }
        results.push(json!({"path": path, "outcomes": outcomes}));
    }
    println!("{}", json!({"results": results}));
}
