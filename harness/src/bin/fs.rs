//! C12 / C13 on the real NativeFileStore.
//!
//! fs paths <graph.json> <L> <seed>   walk every path of the Paths.tla graph: every name built from
//!                                    `start` + up to L components, through get_native_path and every
//!                                    filestore operation, inside a jail with sentinels outside the root
//! fs reqs  <graph.json> <depth>      walk every request sequence of the MC_Filestore graph on a real
//!                                    temp tree: status octet and tree compared after every request
use camino::{Utf8Path, Utf8PathBuf};
use cfdp_core::filestore::{FileStore, NativeFileStore};
use cfdp_core::pdu::{FileStoreAction, FileStoreRequest};
use serde_json::{json, Value};
use std::collections::{BTreeMap, HashMap};
use std::fs::OpenOptions;
use std::panic::{catch_unwind, AssertUnwindSafe};
use std::path::{Component, Path, PathBuf};

// ------------------------------------------------------------------ confinement
/// SAFETY OF THE HARNESS ITSELF, first layer.  The code under test performs destructive filestore operations on names that are
/// MEANT to try to escape.  When a change to the code makes an escape succeed, the operation acts on whatever the escaped path
/// denotes - with an ABSOLUTE escape (`//` -> `/`) that is the machine's own filesystem root (`remove_directory("//")` is
/// `remove_dir_all("/")`: this happened once, against a seeded change, see DESIGN.md section 12).  The process therefore
/// chroots into a scratch directory of its own before it touches the filestore: inside, "/" IS the scratch area, every escape
/// - relative or absolute - lands in watched territory, and nothing outside can be reached.  Without the privilege to chroot
/// the second layer applies: operations whose resolved path leaves the scratch area are reported and NOT executed.
const MARKER: &str = "cfdp_verif_chroot_marker";
static CONFINED: std::sync::OnceLock<bool> = std::sync::OnceLock::new();

fn confined() -> bool {
    *CONFINED.get().unwrap_or(&false)
}

/// empties the private root at the end of a run (only ever inside the chroot, recognised by its marker file)
fn leave() {
    if confined() && Path::new("/").join(MARKER).is_file() {
        for d in ["/jails", "/tmp", NA, NB] {
            let p = Path::new("/").join(d);
            if p.is_dir() { let _ = std::fs::remove_dir_all(&p); } else { let _ = std::fs::remove_file(&p); }
        }
        let _ = std::fs::remove_file(Path::new("/").join(MARKER));
    }
}

fn confine() {
    let verif = std::env::var("CFDP_VERIF_ROOT").unwrap_or_else(|_| "/verif".to_string());
    let base = PathBuf::from(verif).join(".work").join("jails").join(format!("cr-{}", std::process::id()));
    let ok = std::fs::create_dir_all(base.join("jails")).is_ok()
        && std::fs::create_dir_all(base.join("tmp")).is_ok()
        && std::fs::write(base.join(MARKER), b"scratch root of the cfdp-rs verification harness").is_ok()
        && std::os::unix::fs::chroot(&base).is_ok()
        && std::env::set_current_dir("/").is_ok()
        && Path::new("/").join(MARKER).is_file();
    if ok {
        std::env::set_var("TMPDIR", "/tmp");
    }
    let _ = CONFINED.set(ok);
}

/// the inodes of everything below `root` (what an `open` through the filestore may legitimately return)
fn inodes_below(root: &Path) -> std::collections::HashSet<(u64, u64)> {
    use std::os::unix::fs::MetadataExt;
    let mut s = std::collections::HashSet::new();
    let mut stack = vec![root.to_path_buf()];
    while let Some(d) = stack.pop() {
        if let Ok(rd) = std::fs::read_dir(&d) {
            for e in rd.flatten() {
                if let Ok(m) = std::fs::symlink_metadata(e.path()) {
                    s.insert((m.dev(), m.ino()));
                    if m.is_dir() {
                        stack.push(e.path());
                    }
                }
            }
        }
    }
    s
}

// ------------------------------------------------------------------ helpers
fn lexical(p: &Path) -> PathBuf {
    let mut out = PathBuf::new();
    for c in p.components() {
        match c {
            Component::ParentDir => {
                out.pop();
            }
            Component::CurDir => {}
            other => out.push(other.as_os_str()),
        }
    }
    out
}

fn snapshot(dir: &Path, skip: &Path) -> BTreeMap<String, String> {
    // everything below `dir` except the subtree `skip`: path -> kind:len:first bytes
    let mut m = BTreeMap::new();
    let mut stack = vec![dir.to_path_buf()];
    while let Some(d) = stack.pop() {
        if let Ok(rd) = std::fs::read_dir(&d) {
            for e in rd.flatten() {
                let p = e.path();
                if p == skip {
                    continue;
                }
                let rel = p.strip_prefix(dir).unwrap().to_string_lossy().to_string();
                if p.is_dir() {
                    m.insert(rel, "d".into());
                    stack.push(p);
                } else {
                    let c = std::fs::read(&p).unwrap_or_default();
                    m.insert(rel, format!("f:{}:{:?}", c.len(), &c[..c.len().min(8)]));
                }
            }
        }
    }
    m
}

struct Jail {
    _tmp: tempfile::TempDir,
    /// the scratch directory: everything below it except the root is watched
    top: PathBuf,
    /// the directory holding jail/ (PAD levels below `top`)
    inner: PathBuf,
    root: Utf8PathBuf,
    sib: Utf8PathBuf,
    before: BTreeMap<String, String>,
}

/// SAFETY OF THE HARNESS ITSELF: when the code under test lets a name escape the root, the
/// destructive operations below act on whatever the escaped path denotes.  The root is therefore
/// placed PAD (> any walked depth) directories below a scratch directory of its own, inside
/// /verif/.work, so that no walked name (at most L <= 6 '..' components) can climb out of the
/// scratch area; `top` (where the sentinels start) is the directory L+1 levels above the root.
const PAD: usize = 8;

fn jail() -> Jail {
    let base = if confined() { PathBuf::from("/jails") } else { PathBuf::from("/verif/.work/jails") };
    let base = base.as_path();
    std::fs::create_dir_all(base).unwrap();
    let tmp = tempfile::tempdir_in(base).unwrap();
    // the watched area: the whole (private) filesystem when confined, else the scratch directory
    let watch = if confined() { PathBuf::from("/") } else { tmp.path().to_path_buf() };
    let mut top = tmp.path().to_path_buf();
    for i in 0..PAD {
        top = top.join(format!("p{i}"));
    }
    std::fs::create_dir_all(&top).unwrap();
    let rootp = top.join("jail").join("root");
    std::fs::create_dir_all(&rootp).unwrap();
    let sibp = top.join("jail").join("rootx");
    std::fs::create_dir_all(&sibp).unwrap();
    // sentinels outside the root; names that the walked paths can reach: a, b, and the root's own ancestors
    std::fs::write(top.join("jail").join("sentinel.txt"), b"outside-1").unwrap();
    std::fs::write(top.join("sentinel2.txt"), b"outside-2").unwrap();
    // sentinels named like the walked components at every level between the scratch directory and the root
    let mut levels = vec![top.join("jail"), sibp.clone()];
    let mut d = top.clone();
    while d.starts_with(&watch) {
        levels.push(d.clone());
        if !d.pop() { break; }
    }
    for d in levels {
        std::fs::write(d.join(NA), b"sentinel-a").unwrap();
        std::fs::create_dir_all(d.join(NB)).unwrap();
        std::fs::write(d.join(NB).join(NA), b"sentinel-ba").unwrap();
    }
    let root = Utf8PathBuf::from_path_buf(rootp.clone()).unwrap();
    let sib = Utf8PathBuf::from_path_buf(sibp).unwrap();
    let scratch = watch;
    let before = snapshot(&scratch, &rootp);
    Jail { _tmp: tmp, top: scratch, inner: top, root, sib, before }
}

fn try_reset_root(j: &Jail) -> std::io::Result<()> {
    let r = j.root.as_std_path();
    let _ = std::fs::remove_dir_all(r);
    let _ = std::fs::remove_file(r);
    std::fs::create_dir_all(r)?;
    // something to act on inside
    std::fs::write(r.join(NA), b"inside-a")?;
    std::fs::create_dir_all(r.join(NB))?;
    std::fs::write(r.join(NB).join(NA), b"inside-ba")?;
    std::fs::write(r.join("other"), b"inside-other")
}

/// a name that escaped may have removed, renamed or replaced the directories ABOVE the root: that is itself a violation
/// (it shows up in the snapshot comparison); here the jail is rebuilt so that the walk can go on
fn reset_root(j: &Jail) {
    if try_reset_root(j).is_err() {
        // whatever sits where a directory of the chain should be is removed, then the chain is rebuilt
        let mut d = j.root.as_std_path().to_path_buf();
        while d.starts_with(&j.top) && d != j.top {
            if d.is_file() {
                let _ = std::fs::remove_file(&d);
            }
            d.pop();
        }
        jail_fix(j);
        let _ = try_reset_root(j);
    }
}

/// real spelling of a model component; the names are unlikely ones so that a name that escapes
/// (even to the filesystem root) cannot hit anything that matters
const NA: &str = "zq_verif_a";
const NB: &str = "zq_verif_b";
fn comp_str(c: &str) -> &str {
    match c {
        "cur" => ".",
        "par" => "..",
        "nil" => "",
        "a" => NA,
        "b" => NB,
        x => x,
    }
}

/// the spellings of one requested name
fn spellings(j: &Jail, start: &str, comps: &[String]) -> Vec<String> {
    let body: Vec<&str> = comps.iter().map(|c| comp_str(c)).collect();
    let joined = body.join("/");
    let mut v = vec![];
    match start {
        "rel" => {
            v.push(joined.clone());
            v.push(format!("./{joined}"));
        }
        "abs" => {
            v.push(format!("/{joined}"));
            v.push(format!("//{joined}"));
        }
        "root" => {
            v.push(format!("{}/{joined}", j.root));
            v.push(format!("{}//{joined}", j.root));
        }
        _ => {
            v.push(format!("{}/{joined}", j.sib));
        }
    }
    v
}

fn main() {
    std::panic::set_hook(Box::new(|_| {}));
    let a: Vec<String> = std::env::args().collect();
    let graph_text = if a[1] == "sibdepth" { String::new() } else { std::fs::read_to_string(&a[2]).unwrap() };
    confine();
    if a[1] == "sibdepth" {
        let j = jail();
        println!("{}", j.sib.components().filter(|c| matches!(c, camino::Utf8Component::Normal(_))).count());
        drop(j);
        leave();
        return;
    }
    let g: Value = serde_json::from_str(&graph_text).unwrap();
    if a[1] == "paths" {
        let l: usize = a[3].parse().unwrap();
        paths(&g, l, a.get(4).map(|x| x.parse().unwrap()).unwrap_or(l));
    } else {
        reqs(&g, a[3].parse().unwrap(), a.get(4).map(|x| x == "edges").unwrap_or(false));
    }
    leave();
}

// ------------------------------------------------------------------ C12
fn paths(g: &Value, l: usize, lops: usize) {
    // edges: (start, stack) --comp--> stack'
    let mut edges: HashMap<(String, Vec<String>), Vec<(String, Vec<String>)>> = HashMap::new();
    for e in g["edges"].as_array().unwrap() {
        let st: Vec<String> = e[1].as_array().unwrap().iter().map(|x| x.as_str().unwrap().to_string()).collect();
        let st2: Vec<String> = e[3].as_array().unwrap().iter().map(|x| x.as_str().unwrap().to_string()).collect();
        edges.entry((e[0].as_str().unwrap().to_string(), st)).or_default().push((e[2].as_str().unwrap().to_string(), st2));
    }
    let j = jail();
    let fsr = NativeFileStore::new(&j.root);
    let sib_comps: Vec<String> = j.sib.components().filter_map(|c| match c {
        camino::Utf8Component::Normal(s) => Some(s.to_string()),
        _ => None,
    }).collect();
    let sibdepth = sib_comps.len();
    if g["sibdepth"].as_u64().unwrap() as usize != sibdepth {
        eprintln!("sibling depth of the jail ({sibdepth}) differs from the model's");
        std::process::exit(3);
    }
    let mut violations: Vec<Value> = vec![];
    let mut drift: Vec<Value> = vec![];
    let mut names = 0u64;
    let mut calls = 0u64;
    let mut ops = 0u64;
    let mut samples = vec![];
    let mut not_executed = 0u64;
    for start in ["rel", "abs", "root", "sib"] {
        let init: Vec<String> = if start == "sib" { vec!["s".to_string(); sibdepth] } else { vec![] };
        // DFS over component sequences following the graph
        let mut stack: Vec<(Vec<String>, Vec<String>)> = vec![(vec![], init)];
        while let Some((comps, st)) = stack.pop() {
            if violations.len() >= 20 {
                break;      // the verdict is settled; every further escaping name would only be acted on for nothing
            }
            if !comps.is_empty() {
                // expected native path: root / stack (pseudo-names "s" stand for the sibling's own components)
                let mut exp = j.root.clone();
                // the model's "s" entries are the leading components of the sibling's own path
                let nsib = st.iter().filter(|x| *x == "s").count();
                let mut real_st: Vec<String> = sib_comps[..nsib.min(sib_comps.len())].to_vec();
                real_st.extend(st.iter().filter(|x| *x != "s").map(|x| comp_str(x).to_string()));
                for c in &real_st {
                    exp.push(c);
                }
                let fully_popped = false;
                for name in spellings(&j, start, &comps) {
                    names += 1;
                    calls += 1;
                    let native = match catch_unwind(AssertUnwindSafe(|| fsr.get_native_path(&name))) {
                        Ok(p) => p,
                        Err(_) => {
                            violations.push(json!({"name": name, "what": "get_native_path panicked"}));
                            continue;
                        }
                    };
                    let lex = lexical(native.as_std_path());
                    if !lex.starts_with(j.root.as_std_path()) {
                        if violations.len() < 20 {
                            violations.push(json!({"name": name, "start": start, "comps": comps, "what": "native path leaves the root", "native": native.as_str(), "normalised": lex.to_string_lossy()}));
                        }
                    } else if lex != lexical(exp.as_std_path()) && !fully_popped && drift.len() < 20 {
                        drift.push(json!({"name": name, "native": native.as_str(), "model": exp.as_str()}));
                    }
                    // second safety layer: a name that resolves outside the watched area is reported (above) and NOT acted on
                    let reachable = lex.starts_with(&j.top);
                    if !reachable {
                        not_executed += 1;
                    }
                    // every operation with this name, on a fresh root (names longer than `lops` components: resolution only)
                    for op in 0..(if comps.len() <= lops && reachable { 14 } else { 0 }) {
                        reset_root(&j);
                        ops += 1;
                        let other = "other";
                        let r = catch_unwind(AssertUnwindSafe(|| -> Option<String> {
                            match op {
                                0 => { let _ = fsr.create_file(&name); }
                                1 => { let _ = fsr.delete_file(&name); }
                                2 => { let _ = fsr.rename_file(&name, other); }
                                3 => { let _ = fsr.rename_file(other, &name); }
                                4 => { let _ = fsr.append_file(&name, other); }
                                5 => { let _ = fsr.append_file(other, &name); }
                                6 => { let _ = fsr.replace_file(&name, other); }
                                7 => { let _ = fsr.replace_file(other, &name); }
                                8 => { let _ = fsr.create_directory(&name); }
                                9 => { let _ = fsr.remove_directory(&name); }
                                10 => {
                                    if let Ok(f) = fsr.open(&name, OpenOptions::new().read(true)) {
                                        // (no /proc inside the chroot: the opened object is identified by its inode)
                                        use std::os::unix::fs::MetadataExt;
                                        if let Ok(m) = f.metadata() {
                                            let rm = std::fs::metadata(j.root.as_std_path()).ok();
                                            let is_root = rm.map(|r| (r.dev(), r.ino()) == (m.dev(), m.ino())).unwrap_or(false);
                                            if !is_root && !inodes_below(j.root.as_std_path()).contains(&(m.dev(), m.ino())) {
                                                return Some(format!("OUTSIDE dev {} inode {}", m.dev(), m.ino()));
                                            }
                                        }
                                    }
                                }
                                11 => {
                                    if let Ok(s) = fsr.list_directory(&name) {
                                        if s.contains("sentinel") { return Some("listing shows a sentinel".into()); }
                                    }
                                }
                                12 => {
                                    for act in [FileStoreAction::DenyFile, FileStoreAction::DenyDirectory, FileStoreAction::DeleteFile,
                                                FileStoreAction::CreateFile, FileStoreAction::CreateDirectory, FileStoreAction::RemoveDirectory] {
                                        let _ = fsr.process_request(&FileStoreRequest { action_code: act, first_filename: name.clone().into(), second_filename: "".into() });
                                    }
                                }
                                _ => {
                                    for act in [FileStoreAction::RenameFile, FileStoreAction::AppendFile, FileStoreAction::ReplaceFile] {
                                        let _ = fsr.process_request(&FileStoreRequest { action_code: act.clone(), first_filename: name.clone().into(), second_filename: other.into() });
                                        let _ = fsr.process_request(&FileStoreRequest { action_code: act, first_filename: other.into(), second_filename: name.clone().into() });
                                    }
                                }
                            }
                            None
                        }));
                        match r {
                            Err(_) => {}
                            Ok(Some(link)) => {
                                if (link.starts_with("OUTSIDE") || link.starts_with("listing")) && violations.len() < 20 {
                                    violations.push(json!({"name": name, "op": op, "what": "read outside the root", "opened": link}));
                                }
                            }
                            Ok(None) => {}
                        }
                        let after = snapshot(&j.top, j.root.as_std_path());
                        if after != j.before {
                            if violations.len() < 20 {
                                let changed: Vec<String> = after.iter().filter(|(k, v)| j.before.get(*k) != Some(*v)).map(|(k, _)| k.clone())
                                    .chain(j.before.keys().filter(|k| !after.contains_key(*k)).cloned()).collect();
                                violations.push(json!({"name": name, "op": op, "what": "something outside the root was created, changed or deleted", "changed": changed}));
                            }
                            // repair the jail so that later checks are meaningful
                            let fresh = jail_fix(&j);
                            let _ = fresh;
                        }
                    }
                }
                if samples.len() < 4 && comps.len() == l {
                    samples.push(json!({"start": start, "comps": comps, "model_stack": st}));
                }
            }
            if comps.len() < l {
                if let Some(es) = edges.get(&(start.to_string(), st.clone())) {
                    for (c, st2) in es {
                        let mut c2 = comps.clone();
                        c2.push(c.clone());
                        stack.push((c2, st2.clone()));
                    }
                }
            }
        }
    }
    println!("{}", json!({"names": names, "native_path_calls": calls, "operations": ops, "violations": violations, "drift": drift, "samples": samples,
                           "confined_by_chroot": confined(), "names_not_acted_on_because_they_resolve_outside_the_watched_area": not_executed}));
}

fn jail_fix(j: &Jail) {
    // restore the directory chain and the sentinels that were damaged
    let inner = &j.inner;
    let _ = std::fs::create_dir_all(inner.join("jail"));
    let _ = std::fs::create_dir_all(j.sib.as_std_path());
    let _ = std::fs::write(inner.join("jail").join("sentinel.txt"), b"outside-1");
    let _ = std::fs::write(inner.join("sentinel2.txt"), b"outside-2");
    let mut levels = vec![inner.join("jail"), j.sib.as_std_path().to_path_buf()];
    let mut d = inner.clone();
    while d.starts_with(&j.top) {
        levels.push(d.clone());
        if !d.pop() { break; }
    }
    for d in levels {
        let _ = std::fs::create_dir_all(&d);
        if d.join(NA).is_dir() { let _ = std::fs::remove_dir_all(d.join(NA)); }
        let _ = std::fs::write(d.join(NA), b"sentinel-a");
        if d.join(NB).is_file() { let _ = std::fs::remove_file(d.join(NB)); }
        let _ = std::fs::create_dir_all(d.join(NB));
        let _ = std::fs::write(d.join(NB).join(NA), b"sentinel-ba");
    }
    // remove anything that does not belong
    let after = snapshot(&j.top, j.root.as_std_path());
    for k in after.keys() {
        if !j.before.contains_key(k) {
            let p = j.top.join(k);
            if p.is_dir() { let _ = std::fs::remove_dir_all(p); } else { let _ = std::fs::remove_file(p); }
        }
    }
}

// ------------------------------------------------------------------ C13
fn fs_key(v: &Value) -> String {
    // canonical key of a model filestore state {name: [kind, len]}
    let m: BTreeMap<String, String> = v.as_object().map(|o| o.iter().map(|(k, x)| (k.clone(), format!("{}{}", x[0].as_str().unwrap(), x[1]))).collect()).unwrap_or_default();
    format!("{:?}", m)
}

fn build(root: &Path, st: &Value) {
    let _ = std::fs::remove_dir_all(root);
    std::fs::create_dir_all(root).unwrap();
    if let Some(o) = st.as_object() {
        let mut names: Vec<&String> = o.keys().collect();
        names.sort();
        for n in names {
            let x = &o[n];
            if x[0] == "d" {
                std::fs::create_dir_all(root.join(n)).unwrap();
            } else {
                std::fs::write(root.join(n), vec![b'x'; x[1].as_u64().unwrap() as usize]).unwrap();
            }
        }
    }
}

fn tree(root: &Path) -> Value {
    let mut m = serde_json::Map::new();
    let mut stack = vec![root.to_path_buf()];
    while let Some(d) = stack.pop() {
        if let Ok(rd) = std::fs::read_dir(&d) {
            for e in rd.flatten() {
                let p = e.path();
                let rel = p.strip_prefix(root).unwrap().to_string_lossy().to_string();
                if p.is_dir() {
                    m.insert(rel, json!(["d", 0]));
                    stack.push(p);
                } else {
                    m.insert(rel, json!(["f", e.metadata().map(|x| x.len()).unwrap_or(0)]));
                }
            }
        }
    }
    Value::Object(m)
}

fn action(a: &str) -> FileStoreAction {
    match a {
        "CreateFile" => FileStoreAction::CreateFile,
        "DeleteFile" => FileStoreAction::DeleteFile,
        "RenameFile" => FileStoreAction::RenameFile,
        "AppendFile" => FileStoreAction::AppendFile,
        "ReplaceFile" => FileStoreAction::ReplaceFile,
        "CreateDirectory" => FileStoreAction::CreateDirectory,
        "RemoveDirectory" => FileStoreAction::RemoveDirectory,
        "DenyFile" => FileStoreAction::DenyFile,
        _ => FileStoreAction::DenyDirectory,
    }
}

fn reqs(g: &Value, depth: usize, edge_cover: bool) {
    // edges: state key -> [(request, status, next state)]
    let mut edges: HashMap<String, Vec<(Value, u64, Value)>> = HashMap::new();
    for e in g["edges"].as_array().unwrap() {
        edges.entry(fs_key(&e[0])).or_default().push((e[1].clone(), e[2].as_u64().unwrap(), e[3].clone()));
    }
    let tmp = tempfile::tempdir().unwrap();
    let root = tmp.path().join("root");
    let fsr = NativeFileStore::new(Utf8Path::from_path(&root).unwrap());
    let init = g["init"].clone();
    let mut violations: Vec<Value> = vec![];
    let mut seqs = 0u64;
    let mut requests = 0u64;
    let mut samples = vec![];
    // edge cover (thorough tier): every edge of the graph once, reached along a shortest path to its source state
    let mut stack: Vec<(Vec<(Value, u64, Value)>, Value)> = vec![(vec![], init.clone())];
    if edge_cover {
        stack.clear();
        let mut path_to: HashMap<String, Vec<(Value, u64, Value)>> = HashMap::new();
        path_to.insert(fs_key(&init), vec![]);
        let mut frontier = vec![init.clone()];
        while let Some(st) = frontier.pop() {
            let p = path_to[&fs_key(&st)].clone();
            if p.len() >= depth {
                continue;
            }
            if let Some(es) = edges.get(&fs_key(&st)) {
                for e in es {
                    let mut s2 = p.clone();
                    s2.push(e.clone());
                    // a terminal entry: `depth` reached, so the main loop below does not extend it
                    stack.push((s2.clone(), e.2.clone()));
                    let k = fs_key(&e.2);
                    if path_to.get(&k).map_or(true, |q| q.len() > s2.len()) {
                        path_to.insert(k, s2);
                        frontier.insert(0, e.2.clone());
                    }
                }
            }
        }
    }
    let depth = if edge_cover { 0 } else { depth };
    while let Some((seq, st)) = stack.pop() {
        if !seq.is_empty() {
            seqs += 1;
            build(&root, &init);
            for (i, (rq, status, next)) in seq.iter().enumerate() {
                requests += 1;
                let req = FileStoreRequest {
                    action_code: action(rq["a"].as_str().unwrap()),
                    first_filename: rq["f1"].as_str().unwrap().into(),
                    second_filename: rq["f2"].as_str().unwrap().into(),
                };
                let got = catch_unwind(AssertUnwindSafe(|| fsr.process_request(&req).action_and_status.as_u8() as u64));
                let t = tree(&root);
                let last = i + 1 == seq.len();
                match got {
                    Err(_) => {
                        if violations.len() < 20 {
                            violations.push(json!({"seq": seq.iter().map(|x| x.0.clone()).collect::<Vec<_>>(), "at": i, "what": "panic"}));
                        }
                        break;
                    }
                    Ok(s) => {
                        if last && (s != *status || fs_key(&t) != fs_key(next)) && violations.len() < 20 {
                            violations.push(json!({"seq": seq.iter().map(|x| x.0.clone()).collect::<Vec<_>>(), "at": i,
                                                   "expected_status": status, "got_status": s, "expected_tree": next, "got_tree": t}));
                        }
                    }
                }
            }
            if samples.len() < 3 && (seq.len() == depth || (edge_cover && seq.len() > 1)) {
                samples.push(json!(seq.iter().map(|x| json!({"request": x.0, "status": x.1})).collect::<Vec<_>>()));
            }
        }
        if seq.len() < depth {
            if let Some(es) = edges.get(&fs_key(&st)) {
                for e in es {
                    let mut s2 = seq.clone();
                    s2.push(e.clone());
                    stack.push((s2, e.2.clone()));
                }
            }
        }
    }
    println!("{}", json!({"sequences": seqs, "requests": requests, "violations": violations, "samples": samples}));
}
