//! C05 / C06 / C15: the shapes enumerated by TLC from Wire.tla, instantiated with real values.
//!
//! wire shapes <shapes.json> <seed> <per_shape>   round trip, announced vs produced length, header octets
//!                                               against the specification; truncations and mutations (no panic,
//!                                               accepted input is canonical)
//! wire arith <patterns.json>                     forced header octets / id length octets into the real decoders
//! wire crc <shapes.json> <seed> <out.ndjson>     CRC values of encodings (validated by TLC against Crc.tla) and
//!                                               error patterns into PDU::decode
use camino::Utf8PathBuf;
use num_traits::FromPrimitive;
use cfdp_core::filestore::ChecksumType;
use cfdp_core::pdu::*;
use rand::{rngs::StdRng, Rng, SeedableRng};
use serde_json::{json, Value};
use std::io::Write;
use std::panic::{catch_unwind, AssertUnwindSafe};

fn id(w: u64, rng: &mut StdRng) -> VariableID {
    match w {
        1 => VariableID::from(rng.gen::<u8>()),
        2 => VariableID::from(rng.gen::<u16>()),
        4 => VariableID::from(rng.gen::<u32>()),
        _ => VariableID::from(rng.gen::<u64>()),
    }
}
/// one character of a name: half of the names are plain lower-case letters, the other half are drawn from a small
/// alphabet of characters that string handling tends to treat specially (NUL, separators, dots, blanks, DEL)
const SPECIAL: [char; 8] = ['a', 'b', '/', '.', '\0', ' ', '~', '\x7f'];
fn name(n: u64, rng: &mut StdRng) -> Utf8PathBuf {
    let special: bool = rng.gen();
    let s: String = (0..n).map(|_| if special { SPECIAL[rng.gen_range(0..SPECIAL.len())] } else { (b'a' + rng.gen_range(0..26)) as char }).collect();
    Utf8PathBuf::from(s)
}
fn bytes(n: u64, rng: &mut StdRng) -> Vec<u8> {
    (0..n).map(|_| rng.gen()).collect()
}
fn b(v: &Value, k: &str) -> bool {
    v[k].as_bool().unwrap()
}
fn u(v: &Value, k: &str) -> u64 {
    v[k].as_u64().unwrap()
}

/// a uniformly drawn valid value of a discrete field (every variant is reached over the shapes x samples)
fn pick<T>(rng: &mut StdRng, f: impl Fn(u8) -> Option<T>) -> T {
    loop {
        if let Some(x) = f(rng.gen::<u8>() & 0x0f) {
            return x;
        }
    }
}
fn cond(rng: &mut StdRng, err: bool) -> Condition {
    loop {
        let c: Condition = pick(rng, Condition::from_u8);
        if (c != Condition::NoError) == err {
            return c;
        }
    }
}
fn fs_status(rng: &mut StdRng) -> FileStoreStatus {
    loop {
        let a: FileStoreAction = pick(rng, FileStoreAction::from_u8);
        if let Ok(s) = FileStoreStatus::get_status(&a, rng.gen::<u8>() & 0x0f) {
            return s;
        }
    }
}

fn tlv(kind: &str, sh: &Value, rng: &mut StdRng) -> Option<MetadataTLV> {
    let (l1, l2) = (u(sh, "l1"), u(sh, "l2"));
    Some(match kind {
        "none" => return None,
        "fsreq" => MetadataTLV::FileStoreRequest(FileStoreRequest { action_code: pick(rng, FileStoreAction::from_u8), first_filename: name(l1, rng), second_filename: name(l2, rng) }),
        "fsresp" => MetadataTLV::FileStoreResponse(FileStoreResponse {
            action_and_status: fs_status(rng),
            first_filename: name(l1, rng),
            second_filename: name(l2, rng),
            filestore_message: vec![],
        }),
        "msg" => MetadataTLV::MessageToUser(MessageToUser { message_text: bytes(l1, rng) }),
        "fho" => MetadataTLV::FaultHandlerOverride(FaultHandlerOverride { fault_handler_code: pick(rng, HandlerCode::from_u8) }),
        "flow" => MetadataTLV::FlowLabel(FlowLabel { value: bytes(l1, rng) }),
        _ => MetadataTLV::EntityID(id(u(sh, "idw"), rng)),
    })
}

fn build(sh: &Value, rng: &mut StdRng) -> PDU {
    let large = if b(sh, "large") { FileSizeFlag::Large } else { FileSizeFlag::Small };
    let off = |rng: &mut StdRng| -> u64 { if b(sh, "large") { rng.gen::<u64>() } else { rng.gen::<u32>() as u64 } };
    let kind = sh["kind"].as_str().unwrap();
    let err = b(sh, "err");
    let payload = match kind {
        "FileData" => PDUPayload::FileData(FileDataPDU::Unsegmented(UnsegmentedFileData { offset: off(rng), file_data: bytes(u(sh, "datal"), rng) })),
        "FileDataSeg" => PDUPayload::FileData(FileDataPDU::Segmented(SegmentedFileData {
            record_continuation_state: RecordContinuationState::Last,
            segment_metadata: bytes(u(sh, "metal"), rng),
            offset: off(rng),
            file_data: bytes(u(sh, "datal"), rng),
        })),
        "EOF" => PDUPayload::Directive(Operations::EoF(EndOfFile {
            condition: cond(rng, err),
            checksum: rng.gen(),
            file_size: off(rng),
            fault_location: if err { Some(id(u(sh, "idw"), rng)) } else { None },
        })),
        "Finished" => PDUPayload::Directive(Operations::Finished(Finished {
            condition: cond(rng, err),
            delivery_code: if rng.gen() { DeliveryCode::Complete } else { DeliveryCode::Incomplete },
            file_status: pick(rng, FileStatusCode::from_u8),
            filestore_response: (0..u(sh, "nresp"))
                .map(|_| FileStoreResponse {
                    action_and_status: fs_status(rng),
                    first_filename: name(u(sh, "l1"), rng),
                    second_filename: name(u(sh, "l2"), rng),
                    filestore_message: vec![],
                })
                .collect(),
            fault_location: if err { Some(id(u(sh, "idw"), rng)) } else { None },
        })),
        "ACK" => {
            // the two well-formed pairs: ACK of EOF (subtype 0), ACK of Finished (subtype 1)
            let of_eof: bool = rng.gen();
            PDUPayload::Directive(Operations::Ack(PositiveAcknowledgePDU {
                directive: if of_eof { PDUDirective::EoF } else { PDUDirective::Finished },
                directive_subtype_code: if of_eof { ACKSubDirective::Other } else { ACKSubDirective::Finished },
                condition: pick(rng, Condition::from_u8),
                transaction_status: pick(rng, TransactionStatus::from_u8),
            }))
        }
        "Metadata" => PDUPayload::Directive(Operations::Metadata(MetadataPDU {
            closure_requested: rng.gen(),
            checksum_type: if rng.gen() { ChecksumType::Modular } else { ChecksumType::Null },
            file_size: off(rng),
            source_filename: name(u(sh, "l1"), rng),
            destination_filename: name(u(sh, "l2"), rng),
            options: [sh["t1"].as_str().unwrap(), sh["t2"].as_str().unwrap()].iter().filter_map(|k| tlv(k, sh, rng)).collect(),
        })),
        "NAK" => PDUPayload::Directive(Operations::Nak(NegativeAcknowledgmentPDU {
            start_of_scope: off(rng),
            end_of_scope: off(rng),
            // half of the lists use arbitrary offsets, the other half a small pool, so that equal, adjacent, nested and
            // empty requests occur
            segment_requests: {
                let pool: bool = rng.gen();
                (0..u(sh, "nreq"))
                    .map(|_| {
                        if pool {
                            let a = 100 * rng.gen_range(0..5u64);
                            let b = 100 * rng.gen_range(0..5u64);
                            SegmentRequestForm { start_offset: a.min(b), end_offset: a.max(b) }
                        } else {
                            SegmentRequestForm { start_offset: off(rng), end_offset: off(rng) }
                        }
                    })
                    .collect()
            },
        })),
        "Prompt" => PDUPayload::Directive(Operations::Prompt(PromptPDU { nak_or_keep_alive: if rng.gen() { NakOrKeepAlive::Nak } else { NakOrKeepAlive::KeepAlive } })),
        _ => PDUPayload::Directive(Operations::KeepAlive(KeepAlivePDU { progress: off(rng) })),
    };
    let idw = u(sh, "idw");
    PDU {
        header: PDUHeader {
            version: U3::One,
            pdu_type: if kind.starts_with("FileData") { PDUType::FileData } else { PDUType::FileDirective },
            direction: if b(sh, "toSender") { Direction::ToSender } else { Direction::ToReceiver },
            transmission_mode: if b(sh, "unack") { TransmissionMode::Unacknowledged } else { TransmissionMode::Acknowledged },
            crc_flag: if b(sh, "crc") { CRCFlag::Present } else { CRCFlag::NotPresent },
            large_file_flag: large,
            pdu_data_field_length: payload.encoded_len(large),
            segmentation_control: if b(sh, "segctl") { SegmentationControl::Preserved } else { SegmentationControl::NotPreserved },
            segment_metadata_flag: if kind == "FileDataSeg" { SegmentedData::Present } else { SegmentedData::NotPresent },
            source_entity_id: id(idw, rng),
            transaction_sequence_number: id(u(sh, "seqw"), rng),
            destination_entity_id: id(idw, rng),
        },
        payload,
    }
}

fn decode(bytes: &[u8]) -> Result<Result<PDU, String>, String> {
    catch_unwind(AssertUnwindSafe(|| PDU::decode(&mut &bytes[..]).map_err(|e| e.to_string()))).map_err(|p| {
        p.downcast_ref::<String>().cloned().or_else(|| p.downcast_ref::<&str>().map(|s| s.to_string())).unwrap_or_else(|| "?".into())
    })
}

/// accepted input must be canonical: re-encoding the accepted PDU (length field recomputed) and decoding again gives the same PDU
fn canonical(p: &PDU) -> bool {
    let mut q = p.clone();
    q.header.pdu_data_field_length = q.payload.encoded_len(q.header.large_file_flag);
    let enc = q.clone().encode();
    matches!(decode(&enc), Ok(Ok(r)) if r == q)
}

fn shapes(path: &str, seed: u64, per: usize, mutate: bool) {
    let v: Value = serde_json::from_str(&std::fs::read_to_string(path).unwrap()).unwrap();
    let mut rng = StdRng::seed_from_u64(seed);
    let mut viol: Vec<Value> = vec![];
    let (mut evals, mut truncs, mut muts, mut accepted) = (0u64, 0u64, 0u64, 0u64);
    let mut samples = vec![];
    let note = |viol: &mut Vec<Value>, prop: &str, what: &str, sh: &Value, extra: Value| {
        if viol.iter().filter(|x| x["what"] == what).count() < 3 {
            viol.push(json!({"property": prop, "what": what, "shape": sh, "detail": extra}));
        }
    };
    for e in v["shapes"].as_array().unwrap() {
        let sh = &e["sh"];
        for _ in 0..per {
            evals += 1;
            // (building the value already calls the code's own length arithmetic: a panic there is a result, not a tool error)
            let pdu = match catch_unwind(AssertUnwindSafe(|| build(sh, &mut rng))) {
                Ok(p) => p,
                Err(_) => {
                    note(&mut viol, "C05", "encoded_len panicked", sh, json!(null));
                    continue;
                }
            };
            let built = catch_unwind(AssertUnwindSafe(|| (pdu.clone().encode(), pdu.encoded_len(), pdu.header.clone().encode().len(), pdu.payload.encoded_len(pdu.header.large_file_flag))));
            let (enc, announced, hlen, dlen) = match built {
                Ok(x) => x,
                Err(_) => {
                    note(&mut viol, "C05", "encode panicked", sh, json!(null));
                    continue;
                }
            };
            if enc.len() as u64 != u(e, "total") || announced as u64 != u(e, "total") || hlen as u64 != u(e, "hlen") || dlen as u64 != u(e, "dlen") {
                note(&mut viol, "C05", "announced / produced / specified length differ", sh,
                     json!({"produced": enc.len(), "encoded_len": announced, "spec_total": e["total"], "header": hlen, "spec_header": e["hlen"], "data": dlen, "spec_data": e["dlen"]}));
            }
            if enc.len() >= 4 {
                let lf = ((enc[1] as u64) << 8) | enc[2] as u64;
                let spec_lf = u(e, "dlen") + if b(sh, "crc") { 2 } else { 0 };
                if enc[0] as u64 != u(e, "o0") || enc[3] as u64 != u(e, "o3") || lf != spec_lf {
                    note(&mut viol, "C05", "header octets differ from the layout", sh, json!({"got": [enc[0], lf, enc[3]], "spec": [e["o0"], spec_lf, e["o3"]]}));
                }
            }
            match decode(&enc) {
                Ok(Ok(p)) if p == pdu => {}
                Ok(Ok(p)) => note(&mut viol, "C05", "decode(encode(x)) differs from x", sh, json!({"x": format!("{:?}", pdu), "got": format!("{:?}", p)})),
                Ok(Err(er)) => note(&mut viol, "C05", "decode(encode(x)) is an error", sh, json!({"x": format!("{:?}", pdu), "err": er})),
                Err(p) => note(&mut viol, "C06", "decoder panicked on a valid encoding", sh, json!({"panic": p})),
            }
            if samples.len() < 3 && enc.len() > 20 && enc.len() < 60 {
                samples.push(json!({"shape": sh, "bytes": enc}));
            }
            if !mutate {
                continue;
            }
            // C06: every truncation is rejected without panic
            for n in 0..enc.len() {
                truncs += 1;
                match decode(&enc[..n]) {
                    Ok(Err(_)) => {}
                    Ok(Ok(p)) => note(&mut viol, "C06", "a truncated datagram was accepted", sh, json!({"len": n, "of": enc.len(), "got": format!("{:?}", p)})),
                    Err(p) => note(&mut viol, "C06", "decoder panicked on a truncation", sh, json!({"len": n, "bytes": &enc[..n], "panic": p})),
                }
            }
            // C06: single-byte mutations: no panic, and what is accepted is canonical
            let step = (enc.len() / 48).max(1);
            for pos in (0..enc.len()).step_by(step) {
                for val in [enc[pos] ^ 1, enc[pos] ^ 0x80, 0u8, 0xFF, enc[pos].wrapping_add(1)] {
                    if val == enc[pos] {
                        continue;
                    }
                    muts += 1;
                    let mut m = enc.clone();
                    m[pos] = val;
                    match decode(&m) {
                        Ok(Err(_)) => {}
                        Ok(Ok(p)) => {
                            accepted += 1;
                            match catch_unwind(AssertUnwindSafe(|| canonical(&p))) {
                                Ok(true) => {}
                                Ok(false) => note(&mut viol, "C06", "accepted input is not canonical", sh, json!({"pos": pos, "val": val, "bytes": m, "got": format!("{:?}", p)})),
                                Err(_) => note(&mut viol, "C06", "re-encoding an accepted PDU panicked", sh, json!({"pos": pos, "val": val, "bytes": m})),
                            }
                        }
                        Err(p) => note(&mut viol, "C06", "decoder panicked on a mutated datagram", sh, json!({"pos": pos, "val": val, "bytes": m, "panic": p})),
                    }
                }
            }
        }
    }
    println!("{}", json!({"evaluations": evals, "truncations": truncs, "mutations": muts, "mutants_accepted": accepted, "violations": viol, "samples": samples}));
}

fn arith(path: &str) {
    let v: Value = serde_json::from_str(&std::fs::read_to_string(path).unwrap()).unwrap();
    let mut viol: Vec<Value> = vec![];
    let mut n = 0u64;
    for c in v["header"].as_array().unwrap() {
        // [o0, o1, o2, o3, avail, model_ok]
        let o: Vec<u64> = c.as_array().unwrap()[..5].iter().map(|x| x.as_u64().unwrap()).collect();
        let model_ok = c[5].as_bool().unwrap();
        let mut d = vec![o[0] as u8, o[1] as u8, o[2] as u8, o[3] as u8];
        d.extend(std::iter::repeat(0x11u8).take(o[4].min(70_000) as usize));
        n += 1;
        match decode(&d) {
            Err(p) => {
                if viol.len() < 5 {
                    viol.push(json!({"property": "C06", "what": "decoder panicked on forced header octets", "octets": &o[..4], "avail": o[4], "panic": p}));
                }
            }
            Ok(Ok(_)) if !model_ok => {
                if viol.len() < 5 {
                    viol.push(json!({"property": "C06", "what": "header the layout rejects was accepted", "octets": &o[..4], "avail": o[4]}));
                }
            }
            _ => {}
        }
    }
    for c in v["id"].as_array().unwrap() {
        let l = c[0].as_u64().unwrap() as u8;
        let avail = c[1].as_u64().unwrap() as usize;
        let model_ok = c[2].as_bool().unwrap();
        let mut d = vec![l];
        d.extend(std::iter::repeat(0x22u8).take(avail));
        n += 1;
        let r = catch_unwind(AssertUnwindSafe(|| VariableID::decode(&mut &d[..]).is_ok()));
        match r {
            Err(_) => {
                if viol.len() < 8 {
                    viol.push(json!({"property": "C06", "what": "VariableID::decode panicked", "length_octet": l, "avail": avail}));
                }
            }
            Ok(ok) if ok != model_ok => {
                if viol.len() < 8 {
                    viol.push(json!({"property": "C06", "what": "VariableID::decode outcome differs from the layout", "length_octet": l, "avail": avail, "accepted": ok}));
                }
            }
            _ => {}
        }
    }
    println!("{}", json!({"evaluations": n, "violations": viol}));
}

fn crc(path: &str, seed: u64, out: &str, heavy_mode: bool) {
    let v: Value = serde_json::from_str(&std::fs::read_to_string(path).unwrap()).unwrap();
    let mut rng = StdRng::seed_from_u64(seed);
    let mut f = std::io::BufWriter::new(std::fs::File::create(out).unwrap());
    let mut viol: Vec<Value> = vec![];
    let (mut pdus, mut patterns, mut rejected, mut same) = (0u64, 0u64, 0u64, 0u64);
    let mut recs = 0u64;
    for e in v["shapes"].as_array().unwrap() {
        let sh = &e["sh"];
        if !b(sh, "crc") {
            continue;
        }
        // (a panic of the encoder is C05's business: such a shape is skipped here)
        let (pdu, enc) = match catch_unwind(AssertUnwindSafe(|| { let p = build(sh, &mut rng); let e = p.clone().encode(); (p, e) })) {
            Ok(x) => x,
            Err(_) => continue,
        };
        pdus += 1;
        // thorough tier: the dense pattern sets on every 32nd PDU (all of them would take hours), the quick sets on the rest
        let heavy = heavy_mode && pdus % 32 == 0;
        // the CRC the code appended, for TLC to check against Crc.tla (short frames only: TLC evaluates bit by bit)
        if enc.len() <= 40 && recs < 60 {
            let n = enc.len();
            writeln!(f, "{}", json!({"bytes": &enc[..n - 2], "crc": ((enc[n - 2] as u32) << 8) | enc[n - 1] as u32})).unwrap();
            recs += 1;
        }
        match decode(&enc) {
            Ok(Ok(p)) if p == pdu => {}
            other => {
                if viol.len() < 5 {
                    viol.push(json!({"what": "an unaltered PDU with CRC was not accepted", "shape": sh, "got": format!("{:?}", other)}));
                }
                continue;
            }
        }
        let nbits = (enc.len() - 4) * 8;
        let mut try_pattern = |bits: &[usize], viol: &mut Vec<Value>| {
            let mut m = enc.clone();
            for b in bits {
                m[4 + b / 8] ^= 0x80 >> (b % 8);
            }
            patterns += 1;
            match decode(&m) {
                Ok(Err(_)) => rejected += 1,
                Ok(Ok(p)) if p == pdu => same += 1,
                Ok(Ok(p)) => {
                    if viol.len() < 5 {
                        viol.push(json!({"what": "a corrupted PDU was accepted as a different PDU", "shape": sh, "bits": bits, "original": format!("{:?}", pdu), "accepted": format!("{:?}", p)}));
                    }
                }
                Err(p) => {
                    if viol.len() < 5 {
                        viol.push(json!({"what": "decoder panicked on a corrupted PDU", "shape": sh, "bits": bits, "bytes": m, "panic": p}));
                    }
                }
            }
        };
        // every single-bit flip
        for i in 0..nbits {
            try_pattern(&[i], &mut viol);
        }
        // every pair within a 32-bit window (sub-sampled positions when the PDU is long)
        let stride = if heavy { 1 } else { (nbits / 64).max(1) };
        for i in (0..nbits).step_by(stride) {
            for j in (i + 1)..(i + 32).min(nbits) {
                try_pattern(&[i, j], &mut viol);
            }
        }
        // bursts up to 16 bits: both ends flipped, interior seeded random (all interiors for short bursts)
        for i in (0..nbits).step_by(stride) {
            for len in 2..=16usize {
                if i + len > nbits {
                    break;
                }
                let reps = if len <= 6 { 1usize << (len - 2) } else if heavy { 24 } else { 4 };
                for r in 0..reps {
                    let mut bits = vec![i, i + len - 1];
                    for k in 1..len - 1 {
                        let on = if len <= 6 { (r >> (k - 1)) & 1 == 1 } else { rng.gen() };
                        if on {
                            bits.push(i + k);
                        }
                    }
                    try_pattern(&bits, &mut viol);
                }
            }
        }
        // odd numbers of flips (3 and 5) at seeded positions
        for _ in 0..(if heavy { 2000 } else { 200 }) {
            let k = if rng.gen() { 3 } else { 5 };
            let mut bits: Vec<usize> = vec![];
            while bits.len() < k {
                let x = rng.gen_range(0..nbits);
                if !bits.contains(&x) {
                    bits.push(x);
                }
            }
            try_pattern(&bits, &mut viol);
        }
    }
    f.flush().unwrap();
    println!("{}", json!({"pdus": pdus, "patterns": patterns, "rejected": rejected, "decoded_to_original": same, "crc_records": recs, "violations": viol}));
}

/// wire uops <templates.json> <seed> <per> [mutate]: the templates of UserOps.tla instantiated with seeded octets.
/// For every instance w: decode(w) succeeds, encode(decode(w)) = w, encoded_len = |w|, decode(encode(x)) = x
/// (C05); with `mutate`: truncations are rejected and single-octet mutations never panic (C06).
fn uops(path: &str, seed: u64, per: usize, mutate: bool) {
    use cfdp_core::daemon::Report;
    let v: Value = serde_json::from_str(&std::fs::read_to_string(path).unwrap()).unwrap();
    let mut rng = StdRng::seed_from_u64(seed);
    let mut viol: Vec<Value> = vec![];
    let (mut evals, mut truncs, mut muts) = (0u64, 0u64, 0u64);
    let mut samples = vec![];
    let note = |viol: &mut Vec<Value>, prop: &str, what: &str, op: &str, extra: Value| {
        if viol.iter().filter(|x| x["what"] == what && x["op"] == op).count() < 1 && viol.len() < 40 {
            viol.push(json!({"property": prop, "what": what, "op": op, "detail": extra}));
        }
    };
    let pstr = |p: Box<dyn std::any::Any + Send>| -> String {
        p.downcast_ref::<String>().cloned().or_else(|| p.downcast_ref::<&str>().map(|s| s.to_string())).unwrap_or_else(|| "?".into())
    };
    for e in v["templates"].as_array().unwrap() {
        let op = e["op"].as_str().unwrap();
        for _ in 0..per {
            let mut w: Vec<u8> = vec![];
            for f in e["t"].as_array().unwrap() {
                let n = f[1].as_u64().unwrap();
                match f[0].as_str().unwrap() {
                    "lit" => w.push(n as u8),
                    "asc" => {
                        let special: bool = rng.gen();
                        w.extend((0..n).map(|_| if special { SPECIAL[rng.gen_range(0..SPECIAL.len())] as u8 } else { b'a' + rng.gen_range(0..26u8) }))
                    }
                    _ => w.extend((0..n).map(|_| rng.gen::<u8>())),
                }
            }
            evals += 1;
            if op == "Report" {
                match catch_unwind(AssertUnwindSafe(|| Report::decode(&mut &w[..]).map(|r| r.encode()).map_err(|e| e.to_string()))) {
                    Ok(Ok(back)) if back == w => {}
                    Ok(Ok(back)) => note(&mut viol, "C05", "encode(decode(w)) differs from w", op, json!({"w": w, "back": back})),
                    Ok(Err(er)) => note(&mut viol, "C05", "an instance of the layout is rejected", op, json!({"w": w, "err": er})),
                    Err(p) => note(&mut viol, "C06", "decoder panicked on an instance of the layout", op, json!({"w": w, "panic": pstr(p)})),
                }
            } else {
                let r = catch_unwind(AssertUnwindSafe(|| {
                    UserOperation::decode(&mut &w[..]).map_err(|e| e.to_string()).map(|x| {
                        let back = x.clone().encode();
                        let again = UserOperation::decode(&mut &back[..]).map(|y| y == x).unwrap_or(false);
                        (format!("{:?}", x), x.encoded_len(), back, again)
                    })
                }));
                match r {
                    Ok(Ok((dbg, announced, back, again))) => {
                        if back != w {
                            note(&mut viol, "C05", "encode(decode(w)) differs from w", op, json!({"w": w, "back": back, "x": dbg}));
                        } else if announced as usize != w.len() {
                            note(&mut viol, "C05", "announced length differs from the octets produced", op, json!({"w": w, "encoded_len": announced, "x": dbg}));
                        } else if !again {
                            note(&mut viol, "C05", "decode(encode(x)) differs from x", op, json!({"w": w, "x": dbg}));
                        }
                    }
                    Ok(Err(er)) => note(&mut viol, "C05", "an instance of the layout is rejected", op, json!({"w": w, "err": er})),
                    Err(p) => note(&mut viol, "C06", "decoder panicked on an instance of the layout", op, json!({"w": w, "panic": pstr(p)})),
                }
            }
            if samples.len() < 3 && w.len() > 12 && w.len() < 40 {
                samples.push(json!({"op": op, "bytes": w}));
            }
            if !mutate {
                continue;
            }
            let dec = |d: &[u8]| -> Result<bool, String> {
                catch_unwind(AssertUnwindSafe(|| if op == "Report" { Report::decode(&mut &d[..]).is_ok() } else { UserOperation::decode(&mut &d[..]).is_ok() })).map_err(pstr)
            };
            for n in 0..w.len() {
                truncs += 1;
                match dec(&w[..n]) {
                    Ok(false) => {}
                    Ok(true) => note(&mut viol, "C06", "a truncated message was accepted", op, json!({"len": n, "w": w})),
                    Err(p) => note(&mut viol, "C06", "decoder panicked on a truncation", op, json!({"len": n, "w": w, "panic": p})),
                }
            }
            let step = (w.len() / 32).max(1);
            for pos in (0..w.len()).step_by(step) {
                for val in [w[pos] ^ 1, w[pos] ^ 0x80, 0u8, 0xFF, w[pos].wrapping_add(1)] {
                    if val == w[pos] {
                        continue;
                    }
                    muts += 1;
                    let mut m = w.clone();
                    m[pos] = val;
                    if let Err(p) = dec(&m) {
                        note(&mut viol, "C06", "decoder panicked on a mutated message", op, json!({"pos": pos, "val": val, "bytes": m, "panic": p}));
                    }
                }
            }
        }
    }
    println!("{}", json!({"evaluations": evals, "truncations": truncs, "mutations": muts, "violations": viol, "samples": samples}));
}

fn main() {
    std::panic::set_hook(Box::new(|_| {}));
    let a: Vec<String> = std::env::args().collect();
    match a[1].as_str() {
        "shapes" => shapes(&a[2], a[3].parse().unwrap(), a[4].parse().unwrap(), a.get(5).map(|x| x == "mutate").unwrap_or(false)),
        "arith" => arith(&a[2]),
        "uops" => uops(&a[2], a[3].parse().unwrap(), a[4].parse().unwrap(), a.get(5).map(|x| x == "mutate").unwrap_or(false)),
        _ => crc(&a[2], a[3].parse().unwrap(), &a[4], a.get(5).map(|x| x == "heavy").unwrap_or(false)),
    }
}
