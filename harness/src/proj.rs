//! Projection of implementation values (PDUs, indications, snapshots) onto the
//! vocabulary of the TLA+ specification.  Small and dumb on purpose: field extraction,
//! unit scaling and byte comparison - no protocol logic.
use cfdp_core::{
    daemon::Indication,
    pdu::*,
};
use cfdp_daemon::verif::{CounterSnap, RecvSnap, SendSnap};
use serde_json::{json, Value};

pub fn cond_name(c: u8) -> &'static str {
    match c {
        0 => "NoError",
        1 => "PositiveLimitReached",
        2 => "KeepAliveLimitReached",
        3 => "InvalidTransmissionMode",
        4 => "FileStoreRejection",
        5 => "FileChecksumFailure",
        6 => "FilesizeError",
        7 => "NakLimitReached",
        8 => "InactivityDetected",
        9 => "InvalidFileStructure",
        10 => "CheckLimitReached",
        11 => "UnsupportedChecksumType",
        14 => "SuspendReceived",
        15 => "CancelReceived",
        _ => "Other",
    }
}
pub fn deliv_name(c: u8) -> &'static str {
    if c == 0 { "Complete" } else { "Incomplete" }
}
pub fn fstat_name(c: u8) -> &'static str {
    match c {
        0 => "Discarded",
        1 => "Rejection",
        2 => "Retained",
        _ => "Unreported",
    }
}
pub fn state_name(c: u8) -> &'static str {
    match c {
        0 => "Active",
        1 => "Susp",
        _ => "Term",
    }
}
pub fn status_name(c: u8) -> &'static str {
    match c {
        0 => "Undefined",
        1 => "Active",
        2 => "Terminated",
        _ => "Unrecognized",
    }
}

/// scaling between bytes/milliseconds of the implementation and the units of the model
#[derive(Clone, Copy)]
pub struct Scale {
    pub unit: u64,
}
impl Scale {
    /// offsets that are not a multiple of the unit are reported as -1 - (raw) so that
    /// they can never be mistaken for a model value
    pub fn off(&self, x: u64) -> i64 {
        if x % self.unit == 0 && x / self.unit < 1_000_000 {
            (x / self.unit) as i64
        } else {
            -1 - ((x % 1_000_000_000) as i64)
        }
    }
    pub fn ranges(&self, v: &[(u64, u64)]) -> Value {
        json!(v.iter().map(|(a, b)| vec![self.off(*a), self.off(*b)]).collect::<Vec<_>>())
    }
}

pub fn counter(c: &CounterSnap) -> Value {
    let run = !c.paused;
    // the elapsed time of a paused counter is never read by the code: normalised to 0
    let el = if run { (c.elapsed_ms / 1000) as i64 } else { 0 };
    let frac = if run { c.elapsed_ms % 1000 } else { 0 };
    json!({"run": run, "cnt": c.count, "occ": c.occurred, "el": el, "frac": frac})
}

fn until(ms: Option<u64>) -> i64 {
    match ms {
        None => -1,
        Some(m) => ((m + 999) / 1000) as i64,
    }
}

fn send_state(s: &str) -> &'static str {
    match s {
        "SendMetadata" => "Meta",
        "SendData" => "Data",
        "SendEof" => "Eof",
        "Cancelled" => "Canc",
        _ => "Fin",
    }
}

pub fn send_snap(s: &SendSnap, sc: Scale, src_ck: u32) -> Value {
    let eof = match &s.eof {
        None => json!({"set": false, "cond": "NoError", "loc": false, "flag": false, "size": 0, "ckok": true}),
        Some(e) => json!({"set": true, "cond": cond_name(e.condition), "loc": e.fault_location, "flag": e.flag,
                          "size": sc.off(e.file_size), "ckok": e.checksum == src_ck}),
    };
    json!({
        "st": send_state(s.send_state),
        "txs": state_name(s.state),
        "status": status_name(s.status),
        "cond": cond_name(s.condition),
        "deliv": deliv_name(s.delivery_code),
        "fstat": fstat_name(s.file_status),
        "naks": sc.ranges(&s.naks),
        "progress": sc.off(s.sent_file_size),
        "rfs": sc.off(s.received_file_size),
        "eof": eof,
        "acked": s.eof_acked,
        "ack": s.ack.is_some(),
        "ackcond": s.ack.map(|a| cond_name(a.0)).unwrap_or("NoError"),
        "ackstatus": s.ack.map(|a| status_name(a.1)).unwrap_or("Undefined"),
        "prompt": match s.prompt { None => "None", Some(0) => "Nak", Some(_) => "KeepAlive" },
        "eofInd": s.send_eof_indication,
        "cursor": sc.off(s.cursor),
        "tAck": counter(&s.timer_ack),
        "tInact": counter(&s.timer_inactivity),
        "until": until(s.until_timeout_ms),
        "can": s.has_pdu_to_send,
    })
}

pub fn recv_snap(r: &RecvSnap, sc: Scale, src_ck: u32) -> Value {
    let fin = match &r.finished {
        None => json!({"set": false, "cond": "NoError", "deliv": "Incomplete", "fstat": "Unreported", "resp": [], "loc": false, "flag": false}),
        Some(f) => json!({"set": true, "cond": cond_name(f.condition), "deliv": deliv_name(f.delivery_code),
                          "fstat": fstat_name(f.file_status), "resp": f.responses, "loc": f.fault_location, "flag": f.flag}),
    };
    json!({
        "st": match r.recv_state { "ReceiveData" => "Recv", "Finished" => "Fin", _ => "Canc" },
        "txs": state_name(r.state),
        "status": status_name(r.status),
        "cond": cond_name(r.condition),
        "deliv": deliv_name(r.delivery_code),
        "fstat": fstat_name(r.file_status),
        "resp": r.responses,
        "meta": r.metadata,
        "closure": r.closure_requested,
        "segs": sc.ranges(&r.segments),
        "rsize": sc.off(r.received_file_size),
        "eofrx": r.file_size.is_some(),
        "fsize": r.file_size.map(|x| sc.off(x)).unwrap_or(0),
        "ckset": r.checksum.is_some(),
        "ckok": r.checksum.map(|c| c == src_ck).unwrap_or(true),
        "ack": r.ack.is_some(),
        "ackcond": r.ack.map(|a| cond_name(a.0)).unwrap_or("NoError"),
        "ackstatus": r.ack.map(|a| status_name(a.1)).unwrap_or("Undefined"),
        "fopen": r.file_open,
        "fin": fin,
        "prompt": match r.prompt { None => "None", Some(0) => "Nak", Some(_) => "KeepAlive" },
        "naks": sc.ranges(&r.naks),
        "nakMark": sc.off(r.nak_received_file_size),
        "delayed": r.delayed.iter().map(|(c, a, b)| json!({"c": counter(c), "a": sc.off(*a), "b": sc.off(*b)})).collect::<Vec<_>>(),
        "tAck": counter(&r.timer_ack),
        "tInact": counter(&r.timer_inactivity),
        "tNak": counter(&r.timer_nak),
        "until": until(r.until_timeout_ms),
        "can": r.has_pdu_to_send,
    })
}

/// what the projector needs to know about the transaction to judge PDU contents
pub struct Truth<'a> {
    pub src: &'a [u8],
    pub src_ck: u32,
    pub src_name: &'a str,
    pub dst_name: &'a str,
    pub sc: Scale,
    pub hdr: &'a PDUHeader,
    pub closure: bool,
    pub nreqs: usize,
    pub seg_bytes: u64,
}

/// header fields that must be constant for the transaction
pub fn header_ok(h: &PDUHeader, t: &Truth, dir: Direction, payload_len: u16) -> bool {
    h.version == t.hdr.version
        && h.direction == dir
        && h.transmission_mode == t.hdr.transmission_mode
        && h.crc_flag == t.hdr.crc_flag
        && h.large_file_flag == t.hdr.large_file_flag
        && h.source_entity_id == t.hdr.source_entity_id
        && h.destination_entity_id == t.hdr.destination_entity_id
        && h.transaction_sequence_number == t.hdr.transaction_sequence_number
        && h.pdu_data_field_length == payload_len
}

pub fn pdu_json(p: &PDU, t: &Truth, encoded_len: usize) -> Value {
    let sc = t.sc;
    let plen = p.payload.encoded_len(p.header.large_file_flag);
    let dir = match &p.payload {
        PDUPayload::FileData(_) => Direction::ToReceiver,
        PDUPayload::Directive(op) => match op {
            Operations::EoF(_) | Operations::Metadata(_) | Operations::Prompt(_) => Direction::ToReceiver,
            Operations::Finished(_) | Operations::Nak(_) | Operations::KeepAlive(_) => Direction::ToSender,
            Operations::Ack(a) => {
                if a.directive == PDUDirective::Finished { Direction::ToReceiver } else { Direction::ToSender }
            }
        },
    };
    let hdr = header_ok(&p.header, t, dir, plen);
    let mut v = match &p.payload {
        PDUPayload::FileData(fd) => {
            let (off, data) = match fd {
                FileDataPDU::Unsegmented(d) => (d.offset, &d.file_data),
                FileDataPDU::Segmented(d) => (d.offset, &d.file_data),
            };
            let end = off as usize + data.len();
            let ok = end <= t.src.len() && &t.src[off as usize..end] == data.as_slice();
            // lengths: in units when aligned (a ragged tail counts as a partial unit, rounded up)
            let len_u = if data.len() as u64 % sc.unit == 0 { (data.len() as u64 / sc.unit) as i64 } else { -1 - data.len() as i64 };
            json!({"k": "Data", "off": sc.off(off), "len": len_u, "ok": ok, "inside": end <= t.src.len(),
                   "fits": data.len() as u64 <= t.seg_bytes})
        }
        PDUPayload::Directive(op) => match op {
            Operations::Metadata(m) => json!({
                "k": "Metadata", "size": sc.off(m.file_size), "closure": m.closure_requested,
                "nreqs": m.options.iter().filter(|o| matches!(o, MetadataTLV::FileStoreRequest(_))).count(),
                "ok": m.file_size == t.src.len() as u64 && m.source_filename.as_str() == t.src_name
                      && m.destination_filename.as_str() == t.dst_name && m.closure_requested == t.closure
                      && m.options.iter().filter(|o| matches!(o, MetadataTLV::FileStoreRequest(_))).count() == t.nreqs,
            }),
            Operations::EoF(e) => json!({
                "k": "EOF", "cond": cond_name(e.condition as u8), "size": sc.off(e.file_size),
                "ckok": e.checksum == t.src_ck, "loc": e.fault_location.is_some(),
                "ok": e.file_size == t.src.len() as u64 && e.checksum == t.src_ck,
            }),
            Operations::Finished(f) => json!({
                "k": "Finished", "cond": cond_name(f.condition as u8), "deliv": deliv_name(f.delivery_code as u8),
                "fstat": fstat_name(f.file_status as u8),
                "resp": f.filestore_response.iter().map(|r| r.action_and_status.as_u8()).collect::<Vec<_>>(),
                "loc": f.fault_location.is_some(),
            }),
            Operations::Ack(a) => json!({
                "k": "ACK", "of": if a.directive == PDUDirective::Finished { "Finished" } else if a.directive == PDUDirective::EoF { "EOF" } else { "Other" },
                "sub": a.directive_subtype_code.clone() as u8, "cond": cond_name(a.condition as u8),
                "status": status_name(a.transaction_status as u8),
            }),
            Operations::Nak(n) => json!({
                "k": "NAK", "s": sc.off(n.start_of_scope), "e": sc.off(n.end_of_scope),
                // not larger than the largest file data PDU of this transaction
                "fits": encoded_len as u64 <= p.header.clone().encode().len() as u64 + 4 + t.seg_bytes
                        + if p.header.crc_flag == CRCFlag::Present { 2 } else { 0 },
                "reqs": n.segment_requests.iter().map(|r| vec![sc.off(r.start_offset), sc.off(r.end_offset)]).collect::<Vec<_>>(),
            }),
            Operations::Prompt(pr) => json!({"k": "Prompt", "opt": if pr.nak_or_keep_alive == NakOrKeepAlive::Nak { "Nak" } else { "KeepAlive" }}),
            Operations::KeepAlive(k) => json!({"k": "KeepAlive", "progress": sc.off(k.progress)}),
        },
    };
    v["hdr"] = json!(hdr);
    v["bytes"] = json!(encoded_len);
    v
}

pub fn ind_json(e: &str, ind: &Indication, sc: Scale) -> Value {
    match ind {
        Indication::Transaction(_) => json!({"e": e, "k": "Transaction"}),
        Indication::EoFSent(_) => json!({"e": e, "k": "EoFSent"}),
        Indication::EoFRecv(_) => json!({"e": e, "k": "EoFRecv"}),
        Indication::Finished(f) => json!({
            "e": e, "k": "Finished", "cond": cond_name(f.report.condition as u8), "deliv": deliv_name(f.delivery_code as u8),
            "fstat": fstat_name(f.file_status as u8),
            "resp": f.filestore_responses.iter().map(|r| r.action_and_status.as_u8()).collect::<Vec<_>>(),
            "state": state_name(f.report.state as u8), "status": status_name(f.report.status as u8),
        }),
        Indication::MetadataRecv(m) => json!({"e": e, "k": "MetadataRecv", "size": sc.off(m.file_size)}),
        Indication::FileSegmentRecv(s) => json!({"e": e, "k": "FileSegmentRecv", "off": sc.off(s.offset), "len": sc.off(s.length)}),
        Indication::Suspended(s) => json!({"e": e, "k": "Suspended", "cond": cond_name(s.condition as u8)}),
        Indication::Resumed(r) => json!({"e": e, "k": "Resumed", "progress": sc.off(r.progress)}),
        Indication::Report(r) => json!({"e": e, "k": "Report", "cond": cond_name(r.condition as u8), "state": state_name(r.state as u8), "status": status_name(r.status as u8)}),
        Indication::Fault(f) => json!({"e": e, "k": "Fault", "cond": cond_name(f.condition as u8), "progress": sc.off(f.progress)}),
        Indication::Abandon(f) => json!({"e": e, "k": "Abandon", "cond": cond_name(f.condition as u8), "progress": sc.off(f.progress)}),
    }
}
