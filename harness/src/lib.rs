//! shared helpers of the verification harness
pub mod corpus;
pub mod proj;
