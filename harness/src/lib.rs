//! shared helpers of the verification harness
