//! a small corpus of well-formed PDUs of every kind the transaction layer exchanges
use camino::Utf8PathBuf;
use cfdp_core::{
    filestore::ChecksumType,
    pdu::*,
};

pub fn header(
    pdu_type: PDUType,
    direction: Direction,
    mode: TransmissionMode,
    crc: CRCFlag,
    large: FileSizeFlag,
    len: u16,
) -> PDUHeader {
    PDUHeader {
        version: U3::One,
        pdu_type,
        direction,
        transmission_mode: mode,
        crc_flag: crc,
        large_file_flag: large,
        pdu_data_field_length: len,
        segmentation_control: SegmentationControl::NotPreserved,
        segment_metadata_flag: SegmentedData::NotPresent,
        source_entity_id: EntityID::from(7_u16),
        transaction_sequence_number: TransactionSeqNum::from(0x0102_u16),
        destination_entity_id: EntityID::from(9_u16),
    }
}

pub fn wrap(payload: PDUPayload, direction: Direction, crc: CRCFlag, large: FileSizeFlag) -> PDU {
    let pdu_type = match payload {
        PDUPayload::Directive(_) => PDUType::FileDirective,
        PDUPayload::FileData(_) => PDUType::FileData,
    };
    let len = payload.encoded_len(large);
    PDU {
        header: header(pdu_type, direction, TransmissionMode::Acknowledged, crc, large, len),
        payload,
    }
}

/// (name, PDU) for every directive and file data, with the given CRC and file-size flags
pub fn corpus(crc: CRCFlag, large: FileSizeFlag) -> Vec<(String, PDU)> {
    let mut v: Vec<(String, PDU)> = vec![];
    let mut add = |name: &str, p: PDUPayload, d: Direction| v.push((name.to_string(), wrap(p, d, crc, large)));
    add(
        "metadata",
        PDUPayload::Directive(Operations::Metadata(MetadataPDU {
            closure_requested: true,
            checksum_type: ChecksumType::Modular,
            file_size: 1234,
            source_filename: Utf8PathBuf::from("a/src.bin"),
            destination_filename: Utf8PathBuf::from("dst.bin"),
            options: vec![
                MetadataTLV::FileStoreRequest(FileStoreRequest {
                    action_code: FileStoreAction::RenameFile,
                    first_filename: "x".into(),
                    second_filename: "y".into(),
                }),
                MetadataTLV::MessageToUser(MessageToUser { message_text: b"hello".to_vec() }),
            ],
        })),
        Direction::ToReceiver,
    );
    add(
        "filedata",
        PDUPayload::FileData(FileDataPDU::Unsegmented(UnsegmentedFileData {
            offset: 48,
            file_data: (1..=20u8).collect(),
        })),
        Direction::ToReceiver,
    );
    add(
        "eof",
        PDUPayload::Directive(Operations::EoF(EndOfFile {
            condition: Condition::NoError,
            checksum: 0xDEAD_BEEF,
            file_size: 1234,
            fault_location: None,
        })),
        Direction::ToReceiver,
    );
    add(
        "eof_cancel",
        PDUPayload::Directive(Operations::EoF(EndOfFile {
            condition: Condition::CancelReceived,
            checksum: 7,
            file_size: 99,
            fault_location: Some(EntityID::from(7_u16)),
        })),
        Direction::ToReceiver,
    );
    add(
        "finished",
        PDUPayload::Directive(Operations::Finished(Finished {
            condition: Condition::NoError,
            delivery_code: DeliveryCode::Complete,
            file_status: FileStatusCode::Retained,
            filestore_response: vec![FileStoreResponse {
                action_and_status: FileStoreStatus::RenameFile(RenameStatus::Successful),
                first_filename: "x".into(),
                second_filename: "y".into(),
                filestore_message: vec![],
            }],
            fault_location: None,
        })),
        Direction::ToSender,
    );
    add(
        "ack_eof",
        PDUPayload::Directive(Operations::Ack(PositiveAcknowledgePDU {
            directive: PDUDirective::EoF,
            directive_subtype_code: ACKSubDirective::Other,
            condition: Condition::NoError,
            transaction_status: TransactionStatus::Active,
        })),
        Direction::ToSender,
    );
    add(
        "ack_finished",
        PDUPayload::Directive(Operations::Ack(PositiveAcknowledgePDU {
            directive: PDUDirective::Finished,
            directive_subtype_code: ACKSubDirective::Finished,
            condition: Condition::NoError,
            transaction_status: TransactionStatus::Terminated,
        })),
        Direction::ToReceiver,
    );
    add(
        "nak",
        PDUPayload::Directive(Operations::Nak(NegativeAcknowledgmentPDU {
            start_of_scope: 0,
            end_of_scope: 1234,
            segment_requests: vec![
                SegmentRequestForm { start_offset: 0, end_offset: 0 },
                SegmentRequestForm { start_offset: 16, end_offset: 48 },
                SegmentRequestForm { start_offset: 100, end_offset: 1234 },
            ],
        })),
        Direction::ToSender,
    );
    add(
        "prompt",
        PDUPayload::Directive(Operations::Prompt(PromptPDU { nak_or_keep_alive: NakOrKeepAlive::KeepAlive })),
        Direction::ToReceiver,
    );
    add(
        "keepalive",
        PDUPayload::Directive(Operations::KeepAlive(KeepAlivePDU { progress: 777 })),
        Direction::ToSender,
    );
    v
}
