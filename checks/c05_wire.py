"""C05, C06, C15 - the codec properties, to the extent the TLA+ wire-layout specification decides them.

Wire.tla: the fixed header bit by bit, the framing (length field, CRC) and the length of every data field
as a function of the discrete SHAPE of a PDU (kind, flags, id / sequence-number widths, error condition,
name-length classes, TLV kinds, number of requests / responses); the decoder's arithmetic on
attacker-controlled octets with explicit machine ranges.  Crc.tla: CRC-16/IBM-3740 bit by bit.
TLC enumerates the shape space and the boundary patterns, checks the layout laws, and prints them; the
harness instantiates every shape with seeded values and replays every pattern:
  C05  encoded_len() = len(encode()) = the specification's length; header octets = the layout's;
       decode(encode(x)) = x
  C06  every truncation of every encoding is rejected without panic; single-octet mutations never panic and
       whatever is accepted is canonical; forced length / width octets never panic and are rejected where the
       layout rejects them
  C15  the CRC the code appends = Crc.tla's (TLC validates the recorded values); TLC checks the detection lemma
       for short frames; every single-bit flip, pairs within 32 bits, bursts <= 16 and odd-weight patterns after
       the 4 fixed octets of every CRC shape go into PDU::decode: rejected, or decoded to the original.
Level: exploration.  NOT decided: arbitrary random byte strings (C06), values of continuous fields beyond the
seeded samples (C05), the user-operation messages carried inside Message-to-User TLVs (opaque here), the CRC
algebra beyond the bounded frames (C15)."""
import json
import os

import common
import tlc

TIERS = {
    "quick": dict(full=False, per=3, crcL=4, heavy=False),
    "thorough": dict(full=True, per=4, crcL=6, heavy=True),
}


def shapes(c, full, long_lists=True):
    cfg = os.path.join(c.work, "MC_Wire.cfg")
    with open(common.VERIF + "/spec/mc/MC_Wire.cfg") as f:
        text = f.read().replace("CONSTANT Full = FALSE", "CONSTANT Full = %s" % ("TRUE" if full else "FALSE"))
    with open(cfg, "w") as f:
        f.write(text)
    r = tlc.run(common.VERIF + "/spec/mc/MC_Wire.tla", cfg, os.path.join(c.work, "tlc-wire"), workers=6, xmx="8g", timeout=7200)
    if r.violated or not r.ok:
        raise common.ToolError("Wire.tla violates its own law %s" % r.violated)
    out = []
    for tag, v in tlc.tagged(r.text, ("SHAPE",)):
        sh, hlen, dlen, total, o0, o3 = v
        out.append({"sh": sh, "hlen": hlen, "dlen": dlen, "total": total, "o0": o0, "o3": o3})
    if len(out) != r.distinct:
        raise common.ToolError("shape dump incomplete: %d of %d" % (len(out), r.distinct))
    if not long_lists:
        # the long-list shapes (hundreds of items, kilobytes) serve the round trip (C05); mutating every octet of them
        # or applying every error pattern to them (C06, C15) would cost hours and adds no new decoder path
        out = [x for x in out if x["sh"]["nresp"] < 100 and x["sh"]["nreq"] < 100]
    p = os.path.join(c.work, "shapes.json")
    with open(p, "w") as f:
        json.dump({"shapes": out}, f)
    return r, p, len(out)


def uo_templates(c, full):
    """the templates of UserOps.tla (reserved user operations, status report), enumerated by TLC"""
    cfg = os.path.join(c.work, "MC_UserOps.cfg")
    with open(common.VERIF + "/spec/mc/MC_UserOps.cfg") as f:
        text = f.read().replace("CONSTANT Full = FALSE", "CONSTANT Full = %s" % ("TRUE" if full else "FALSE"))
    with open(cfg, "w") as f:
        f.write(text)
    r = tlc.run(common.VERIF + "/spec/mc/MC_UserOps.tla", cfg, os.path.join(c.work, "tlc-uops"), workers=4, xmx="8g", timeout=7200)
    if r.violated or not r.ok:
        raise common.ToolError("UserOps.tla violates its own law %s" % r.violated)
    out = [{"op": v[0], "t": [list(x) for x in v[1]]} for tag, v in tlc.tagged(r.text, ("UOP",))]
    if len(out) != r.distinct:
        raise common.ToolError("template dump incomplete: %d of %d" % (len(out), r.distinct))
    p = os.path.join(c.work, "uops.json")
    with open(p, "w") as f:
        json.dump({"templates": out}, f)
    return r, p, len(out), len(set(x["op"] for x in out))


def patterns(c):
    r = tlc.run(common.VERIF + "/spec/mc/MC_WirePatterns.tla", common.VERIF + "/spec/mc/MC_WirePatterns.cfg", os.path.join(c.work, "tlc-pat"), workers=1, xmx="4g", timeout=3600)
    hdr, idp = [], []
    for tag, v in tlc.tagged(r.text, ("HDR", "IDP")):
        (hdr if tag == "HDR" else idp).append(v)
    p = os.path.join(c.work, "patterns.json")
    with open(p, "w") as f:
        json.dump({"header": hdr, "id": idp}, f)
    return p, len(hdr), len(idp)


def report(c, prop, viols):
    seen = set()
    for v in viols:
        if v.get("property", prop) != prop:
            continue
        if v["what"] in seen or len(c.violations) >= 5:
            continue
        seen.add(v["what"])
        c.violation("%s: %s" % (v["what"], json.dumps({k: v[k] for k in v if k not in ("what", "property")})[:400]), {"kind": "wire", "property": prop, "violation": v})


def run(prop, tier, seed):
    t = TIERS[tier]
    c = common.Check(prop, tier, seed, "model_checking")
    r, spath, nshapes = shapes(c, t["full"], long_lists=(prop == "C05"))
    if prop == "C05":
        out = json.loads(common.run_bin("wire", ["shapes", spath, seed, t["per"]], timeout=7200))
        ru, upath, ntempl, nops = uo_templates(c, t["full"])
        uo = json.loads(common.run_bin("wire", ["uops", upath, seed, t["per"]], timeout=7200))
        report(c, "C05", out["violations"] + uo["violations"])
        c.coverage = {
            "evaluations": out["evaluations"] + uo["evaluations"], "distinct_nontrivial": nshapes + ntempl,
            "states": r.distinct + ru.distinct, "transitions": r.generated + ru.generated,
            "traces_validated_against_impl": out["evaluations"] + uo["evaluations"],
            "user_operations": {"templates": ntempl, "operations": nops, "instances": uo["evaluations"], "samples": uo["samples"],
                                "rule": "every template of UserOps.tla (26 reserved user operations + the status report; identifier widths x every value of every packed "
                                        "field x length classes, enumerated by TLC, laws OctetsOk / NibRoundTrip checked) instantiated with seeded octets w: decode(w) "
                                        "succeeds, encode(decode(w)) = w, encoded_len = |w|, decode(encode(x)) = x"},
            "rule": "one case per shape of Wire.tla's shape space (kind x flags x id width x sequence width x error condition x name-length classes x TLV kinds x "
                    "request/response counts), enumerated exhaustively by TLC (%d shapes, laws LengthsFit and HeaderRoundTrip checked), each instantiated %d time(s) with seeded "
                    "values; distinct = distinct shapes" % (nshapes, t["per"]),
            "samples": out["samples"], "shapes": nshapes, "exhaustive_over_shapes": True,
            "not_decided": ["values of continuous fields beyond the seeded samples"],
        }
    elif prop == "C06":
        out = json.loads(common.run_bin("wire", ["shapes", spath, seed, 1, "mutate"], timeout=14400))
        ppath, nh, ni = patterns(c)
        ar = json.loads(common.run_bin("wire", ["arith", ppath], timeout=3600))
        ru, upath, ntempl, nops = uo_templates(c, t["full"])
        uo = json.loads(common.run_bin("wire", ["uops", upath, seed, 1, "mutate"], timeout=7200))
        report(c, "C06", out["violations"] + ar["violations"] + uo["violations"])
        c.coverage = {
            "evaluations": out["truncations"] + out["mutations"] + ar["evaluations"] + uo["truncations"] + uo["mutations"],
            "states": r.distinct + ru.distinct, "transitions": r.generated + ru.generated,
            "traces_validated_against_impl": out["truncations"] + out["mutations"] + ar["evaluations"] + uo["truncations"] + uo["mutations"],
            "distinct_nontrivial": nshapes + nh + ni + ntempl,
            "user_operations": {"templates": ntempl, "truncations": uo["truncations"], "mutations": uo["mutations"],
                                "rule": "every truncation of an instance of every UserOps.tla template is rejected, no single-octet mutation makes UserOperation::decode / Report::decode panic"},
            "rule": "for every shape of Wire.tla: every truncation of its encoding (must be rejected) and 5 single-octet mutations at up to 48 positions (no panic; what is accepted "
                    "must re-encode and decode to itself); plus every boundary pattern of the decoder-arithmetic model (first octet x length octets x width octet x bytes available; "
                    "id length octet 0..255 x bytes available) into PDU::decode / VariableID::decode under catch_unwind; distinct = shapes + patterns",
            "samples": out["samples"][:2] + [{"header_patterns": nh, "id_patterns": ni}],
            "truncations": out["truncations"], "mutations": out["mutations"], "mutants_accepted_and_checked_canonical": out["mutants_accepted"],
            "arith_patterns": ar["evaluations"],
            "not_decided": ["arbitrary random byte strings: only the structured neighbourhood of valid encodings and the boundary values of length / flag fields"],
        }
    else:
        # the lemma on the specification
        cfg = os.path.join(c.work, "MC_Crc.cfg")
        with open(common.VERIF + "/spec/mc/MC_Crc.cfg") as f:
            text = f.read().replace("CONSTANT L = 4", "CONSTANT L = %d" % t["crcL"])
        with open(cfg, "w") as f:
            f.write(text)
        rc = tlc.run(common.VERIF + "/spec/mc/MC_Crc.tla", cfg, os.path.join(c.work, "tlc-crc"), workers=1, xmx="6g", timeout=7200)
        if rc.violated or not rc.ok:
            raise common.ToolError("Crc.tla: detection lemma fails in the bounded model: %s" % rc.violated)
        trace = os.path.join(c.work, "crc.ndjson")
        args = ["crc", spath, seed, trace] + (["heavy"] if t["heavy"] else [])
        out = json.loads(common.run_bin("wire", args, timeout=14400))
        tr = tlc.run(common.VERIF + "/spec/trace/CrcTrace.tla", common.VERIF + "/spec/trace/CrcTrace.cfg", os.path.join(c.work, "tlc-crctrace"),
                     workers=1, env={"TRACE": trace}, jvm=["-Xss1g"], timeout=3600)
        bad = [v for tag, v in tlc.tagged(tr.text, ("BAD",))]
        cons = [v for tag, v in tlc.tagged(tr.text, ("CONSUMED",))]
        if not cons or cons[0][0] != cons[0][1]:
            raise common.ToolError("CRC trace not consumed: %s" % cons)
        for x in bad[:3]:
            c.violation("the CRC appended by the code differs from Crc.tla: record %s spec %s code %s" % (x[0], x[1], x[2]), {"kind": "crc-value", "record": x})
        report(c, "C15", [dict(v, property="C15") for v in out["violations"]])
        c.coverage = {
            "evaluations": out["patterns"], "distinct_nontrivial": out["pdus"],
            "states": r.distinct + rc.distinct, "transitions": r.generated + rc.generated,
            "traces_validated_against_impl": out["patterns"] + out["crc_records"],
            "rule": "for every CRC shape of Wire.tla (one seeded instance each): every single-bit flip after the 4 fixed octets, every pair within a 32-bit window, bursts of 2..16 bits "
                    "(all interiors up to 6 bits, seeded beyond) and seeded 3- and 5-bit patterns into PDU::decode: rejected or decoded to the original; distinct = PDUs attacked; "
                    "the CRC values of %d short encodings validated by TLC against Crc.tla; detection lemma (single, double, burst, triple) checked by TLC for frames of %d+2 octets" % (out["crc_records"], t["crcL"]),
            "samples": [{"pdus": out["pdus"], "patterns": out["patterns"], "rejected": out["rejected"], "decoded_to_original": out["decoded_to_original"]}],
            "rejected": out["rejected"], "decoded_to_original_spare_bits": out["decoded_to_original"], "crc_values_validated_by_tlc": out["crc_records"],
            "not_decided": ["the CRC algebra beyond the bounded frames is mathematics about the polynomial, not decided by TLC"],
        }
    c.assumptions = ["Wire.tla is a transcription of the layout implemented in cfdp-core/src/pdu; its laws are checked by TLC, its agreement with the code by this replay",
                     "seeded values for the continuous fields"]
    return c.finish()


def replay(prop, path, seed):
    return run(prop, "quick", seed)
