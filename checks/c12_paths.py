"""C12 - filestore operations cannot reach outside the filestore root.

Paths.tla: a requested name = start (relative / absolute / prefixed by the root path / prefixed by
a sibling whose name extends the root's) + components (names, '.', '..', empty); resolution keeps a
stack of names below the root.  TLC checks Contained for every name of up to L components and
prints the graph; the harness walks every name of the graph in several spellings through the real
get_native_path and through every filestore operation inside a jail whose parent directories hold
sentinel files.  VIOLATION = the property itself: the native path (lexically normalised) leaves
the root, or something outside the root was created, changed, deleted or opened.  Disagreement
with the model's resolved path while still inside the root is DRIFT only."""
import json
import os

import common
import tlc

# L: components per name for the resolution check (get_native_path stays below the root, equals the model's path);
# Lops: up to that many components every one of the 14 groups of operations is also executed in the jail
# (thorough with Lops=4 / L=6 ran for more than 80 minutes: 3 million filesystem operations, single-threaded)
TIERS = {"quick": dict(L=4, Lops=3), "thorough": dict(L=5, Lops=3)}


def run(prop, tier, seed):
    t = TIERS[tier]
    c = common.Check(prop, tier, seed, "model_checking")
    sibdepth = int(common.run_bin("fs", ["sibdepth"]).strip())
    cfg = os.path.join(c.work, "MC_Paths.cfg")
    with open(common.VERIF + "/spec/mc/MC_Paths.cfg") as f:
        text = f.read().replace("CONSTANT L = 4", "CONSTANT L = %d" % t["L"]).replace("CONSTANT SibDepth = 3", "CONSTANT SibDepth = %d" % sibdepth)
    with open(cfg, "w") as f:
        f.write(text)
    r = tlc.run(common.VERIF + "/spec/Paths.tla", cfg, os.path.join(c.work, "tlc"), workers=1, timeout=1800)
    if r.violated:
        raise common.ToolError("Paths.tla violates %s: the specification is wrong" % r.violated)
    edges = [v for tag, v in tlc.tagged(r.text, ("EDGE",))]
    gpath = os.path.join(c.work, "graph.json")
    with open(gpath, "w") as f:
        json.dump({"edges": edges, "sibdepth": sibdepth}, f)
    out = json.loads(common.run_bin("fs", ["paths", gpath, t["L"], t["Lops"]], timeout=14400))
    common.sweep_jails()
    c.coverage = {
        "states": r.distinct, "transitions": r.generated,
        "traces_validated_against_impl": out["names"],
        "samples": out["samples"],
        "names_walked": out["names"], "native_path_calls": out["native_path_calls"], "filestore_operations": out["operations"],
        "harness_confined_by_chroot": out["confined_by_chroot"],
        "names_not_acted_on_because_they_resolve_outside_the_watched_area": out["names_not_acted_on_because_they_resolve_outside_the_watched_area"],
        "drift": out["drift"][:10], "exhaustive": True, "constants": dict(t, SibDepth=sibdepth),
        "tlc_invariants": ["Contained", "DepthBound"],
        "rule": "every name = start in {relative, absolute, root-prefixed, sibling-prefixed} x every sequence of <= L components over {a, b, '.', '..', ''}, "
                "each in 1-2 spellings, through get_native_path and 14 groups of filestore operations (create, delete, rename both ways, append both ways, "
                "replace both ways, mkdir, rmdir, open, list, and every request action through process_request) in a jail with sentinels outside the root",
    }
    c.assumptions = ["the harness process chroots into a scratch directory before it touches the filestore (every escape, relative or absolute, lands in the watched "
                     "area); without that privilege, names whose native path leaves the scratch area are reported but not acted on",
                     "POSIX filesystem without symlinks inside the jail", "containment judged on the lexically normalised native path and on a snapshot of everything outside the root"]
    seen = set()
    for v in out["violations"]:
        k = (v["what"], v.get("op"))
        if k in seen or len(c.violations) >= 5:
            continue
        seen.add(k)
        c.violation("%s: name %r %s" % (v["what"], v["name"], {k2: v[k2] for k2 in v if k2 not in ("what", "name")}), {"kind": "paths", "violation": v, "L": t["L"]})
    for d in out["drift"][:5]:
        print("DRIFT property=C12 name=%r native=%s model=%s" % (d["name"], d["native"], d["model"]))
    return c.finish()


def replay(prop, path, seed):
    # the jail is recreated on every run; the replay re-walks the graph (quick bound) and looks for the same kind of violation
    with open(path) as f:
        rp = json.load(f)
    rc = run(prop, "quick" if rp.get("L", 3) <= 3 else "thorough", seed)
    return rc
