"""C11 - concurrent transactions are isolated; stray PDUs cannot disturb the daemon.

Daemon.tla models the daemon layer (sequence numbers, routing by (source, seq), spawning and reaping
of transaction tasks); TLC checks IdsDistinct, DaemonAlive, RoutingSafe, NoSendFromStray under
arbitrary stray headers.  Binding (Level D): 2-3 REAL Daemons on a paused tokio runtime with an
in-memory network, several overlapping transfers in both directions and mixed modes, seeded link
faults and injected stray / replayed PDUs.  The hook events of each run are validated by TLC:
  - DaemonTrace.tla: every routing decision against Daemon!Route (DRIFT), and the C11 predicates
    (ids distinct, no daemon exits, every task - also stray-started ones - ends, no task panics);
  - CfdpTrace.tla, per transaction: own file to own destination, own outcome (the C01/C02/C04
    predicates of the monitor) and conformance of every step with the transaction model."""
import json
import os

import common
import dlevel
import tlc

TIERS = {"quick": dict(multi=40, maxseq=1, maxstrays=2), "thorough": dict(multi=150, maxseq=2, maxstrays=3)}
OWN = ("C01:", "C02:", "C04:")


def run(prop, tier, seed):
    t = TIERS[tier]
    c = common.Check(prop, tier, seed, "model_checking")
    # model
    mod = os.path.join(c.work, "MC_Daemon.tla")
    with open(common.VERIF + "/spec/mc/MC_Daemon.tla") as f:
        text = f.read().replace("MaxSeq == 2", "MaxSeq == %d" % t["maxseq"]).replace("Cardinality(used) <= 3", "Cardinality(used) <= %d" % t["maxstrays"])
    with open(mod, "w") as f:
        f.write(text)
    r = tlc.run(mod, common.VERIF + "/spec/mc/MC_Daemon.cfg", os.path.join(c.work, "tlc"), workers=8, xmx="10g", timeout=3600)
    if r.violated:
        raise common.ToolError("Daemon.tla violates %s in the model" % r.violated)
    # real daemons
    scen = dlevel.family_multi(tier, seed, t["multi"])
    res = dlevel.run(scen, os.path.join(c.work, "d"), shards=12)
    seen = set()
    for v in res["dviol"]:
        if v["tag"] in seen or len(c.violations) >= 5:
            continue
        seen.add(v["tag"])
        sc = [s for s in scen if s["id"] == v["id"]]
        c.violation("%s in scenario %s (event %s)" % (v["tag"], v["id"], v["line"]), {"kind": "d-scenario", "tag": v["tag"], "scenario": sc[0] if sc else None})
    known = [f for f in common.known_findings()["findings"]]
    targeted = 0
    for v in res["viol"]:
        if not v["tag"].startswith(OWN):
            continue
        if v["sig"] and any(v["sig"] == f["signature"] for f in known):
            continue
        key = "C11:Isolation(%s)" % v["tag"]
        if key in seen or len(c.violations) >= 5:
            continue
        sid, txs = v["id"].rsplit("-tx", 1)
        sc = [s for s in scen if s["id"] == sid]
        # a forged / replayed PDU that carries the ids of THIS transaction belongs to it as far as any daemon can tell:
        # it may change this transaction's outcome (C11 is about the OTHER transactions)
        if sc and any("%d.%d" % (x["pdu"]["src"], x["pdu"]["seq"]) == txs for x in sc[0]["strays"]):
            targeted += 1
            continue
        seen.add(key)
        c.violation("%s: transaction %s, step %d" % (key, v["id"], v["line"]),
                    {"kind": "d-scenario", "tag": key, "scenario": sc[0] if sc else None, "trace": dlevel.trace_of(os.path.join(c.work, "d"), v["id"])})
    for d in res["ddrift"][:5]:
        print("DRIFT property=C11 scenario=%s event=%s %s model/real=%s" % (d["id"], d["line"], d["what"], d["detail"]))
    for d in res["drift"][:5]:
        print("DRIFT property=C11 run=%s step=%d action=%s parts=%s" % (d["id"], d["line"], d["action"], ",".join(d["parts"])))
    c.coverage = {
        "states": r.distinct, "transitions": r.generated,
        "traces_validated_against_impl": res["scenarios"] + res["runs"],
        "samples": [{"id": s["id"], "entities": s["entities"], "puts": [[p["from"], p["to"], p["mode"], len(p["file"])] for p in s["puts"]],
                     "faults": s["faults"], "strays": [[x["to"], x["pdu"]["k"], x["pdu"]["src"], x["pdu"]["seq"], x["pdu"]["dir"]] for x in s["strays"]]} for s in scen[:2]],
        "daemon_scenarios": res["scenarios"], "transactions_validated": res["runs"],
        "transaction_events": res["events"], "daemon_events": res["devents"],
        "drift_steps": len(res["drift"]) + len(res["ddrift"]),
        "outcomes_changed_by_forged_pdus_with_the_transactions_own_ids": targeted,
        "tlc_invariants": ["IdsDistinct", "DaemonAlive", "RoutingSafe", "NoSendFromStray"],
        "constants": t,
        "rule": "MC_Daemon explored exhaustively (2 entities + a third source, 6 kinds of stray header); %d seeded scenarios with 2-3 real daemons, 5-9 overlapping "
                "transfers each (both directions, acknowledged / unacknowledged, closure on/off, sizes 0-5 units), one fault per link, 2-6 stray PDUs; every hook event "
                "validated by DaemonTrace.tla and every transaction by CfdpTrace.tla" % t["multi"],
    }
    c.assumptions = ["one current-thread runtime with paused clock and seeded select! (the tasks share nothing but channels and the filestore)",
                     "in-memory transport instead of UDP (the UDP transport is covered by C16)"]
    return c.finish()


def replay(prop, path, seed):
    with open(path) as f:
        rp = json.load(f)
    work = os.path.join(common.WORK, "C11-replay")
    res = dlevel.run([rp["scenario"]], work, shards=1)
    bad = [v for v in res["dviol"]] + [v for v in res["viol"] if v["tag"].startswith(OWN) and not v["sig"]]
    if bad:
        print("VIOLATION property=%s replay=%s" % (prop, path))
        return 1
    print("replay passes on the current tree")
    return 0
