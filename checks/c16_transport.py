"""C16 - a datagram is decoded from its own bytes only.

Transport.tla models the reused receive buffer with tagged cells; TLC checks NoStaleBytes /
TruncatedRejected / CompleteAccepted for the decode-own-bytes design (and refutes them for the
decode-whole-buffer design, as a non-vacuity control) over the encoded lengths of the harness
corpus, and prints every behaviour (complete datagram, then any truncation of any datagram, ...).
Each behaviour is replayed over a real UdpTransport on 127.0.0.1; the outcome of every
receive() must be the model's."""
import json
import os

import common
import tlc

TIERS = {
    "quick": dict(depth=2, subset=None),
    # depth 3 on a sub-corpus (the long ones + short ones), depth 2 on everything
    "thorough": dict(depth=2, subset=[1, 2, 6, 8, 9, 11, 12, 19], depth3=True),
}


def model(c, lens, depth, whole, emit, name):
    mod = os.path.join(c.work, "MC_Transport.tla")
    with open(common.VERIF + "/spec/mc/MC_Transport.tla") as f:
        text = f.read().replace("Lens == <<13, 34, 20>>", "Lens == <<%s>>" % ", ".join(str(x) for x in lens))
    with open(mod, "w") as f:
        f.write(text)
    cfg = os.path.join(c.work, name + ".cfg")
    with open(common.VERIF + "/spec/mc/MC_Transport.cfg") as f:
        t = f.read().replace("MaxDepth = 2", "MaxDepth = %d" % depth)
    if whole:
        t = t.replace("WholeBuffer = FALSE", "WholeBuffer = TRUE")
    if not emit:
        t = t.replace("ACTION_CONSTRAINT EmitEdge\n", "")
    with open(cfg, "w") as f:
        f.write(t)
    return tlc.run(mod, cfg, os.path.join(c.work, "tlc-" + name), workers=1 if emit else 4, timeout=1800)


def walk(c, corpus, idx, depth, label):
    """idx: 1-based corpus indices used in this model run"""
    lens = [corpus[i - 1]["len"] for i in idx]
    r = model(c, lens, depth, False, True, label)
    if r.violated:
        raise common.ToolError("Transport.tla (own-bytes design) violates %s: the specification is wrong" % r.violated)
    paths, expect = [], []
    for tag, v in tlc.tagged(r.text, ("EDGE",)):
        hist, outcome = v
        if len(hist) >= 2 or depth == 1:
            paths.append([[idx[d - 1], n] for d, n in hist])
            expect.append(outcome)
    # keep only the behaviours of maximal length: shorter ones are their prefixes
    ppath = os.path.join(c.work, label + "-paths.json")
    with open(ppath, "w") as f:
        json.dump(paths, f)
    out = json.loads(common.run_bin("udp", ["walk", ppath], timeout=3600))
    bad = []
    for res, exp in zip(out["results"], expect):
        path = res["path"]
        got = res["outcomes"][-1]
        # all but the last step were judged as the last step of a shorter behaviour, except step 1
        first = res["outcomes"][0]
        if first["o"] != "accept" or not first.get("same"):
            bad.append((path[:1], "accept", first))
        if exp == "accept":
            if got["o"] != "accept" or not got.get("same"):
                bad.append((path, "accept (the PDU that was sent)", got))
        else:
            if got["o"] != "reject":
                bad.append((path, "reject", got))
    return r, len(paths), bad, paths[:2]


def run(prop, tier, seed):
    t = TIERS[tier]
    c = common.Check(prop, tier, seed, "model_checking")
    corpus = json.loads(common.run_bin("udp", ["corpus"]))
    all_idx = list(range(1, len(corpus) + 1))
    r, n, bad, samples = walk(c, corpus, all_idx, 2, "d2")
    states, trans, total = r.distinct, r.generated, n
    if t.get("depth3"):
        r3, n3, bad3, _ = walk(c, corpus, t["subset"], 3, "d3")
        states += r3.distinct
        trans += r3.generated
        total += n3
        bad += bad3
    # non-vacuity: the whole-buffer design must be refuted by TLC
    ra = model(c, [corpus[i - 1]["len"] for i in all_idx[:6]], 2, True, False, "asis")
    if not ra.violated:
        raise common.ToolError("non-vacuity control failed: the whole-buffer design was not refuted")
    c.coverage = {
        "states": states,
        "transitions": trans,
        "traces_validated_against_impl": total,
        "samples": [{"corpus": [corpus[d - 1]["name"] for d, _ in p], "path": p} for p in samples],
        "corpus": corpus,
        "exhaustive": True,
        "tlc_invariants": ["NoStaleBytes", "TruncatedRejected", "CompleteAccepted"],
        "non_vacuity": "decode-whole-buffer design refuted by TLC: %s" % ra.violated,
        "rule": "every behaviour of MC_Transport: a complete datagram of the corpus (10 PDU kinds x CRC on/off) followed by every truncation length 0..len of every corpus datagram"
                + (" (depth 3 on a sub-corpus as well)" if t.get("depth3") else "") + "; each sent over loopback UDP to a fresh UdpTransport, receive() outcome compared with the model",
    }
    c.assumptions = ["loopback UDP delivers datagrams in order and unmodified", "a truncated datagram keeps its original length field"]
    seen = set()
    for path, exp, got in bad:
        key = (tuple(path[-1]), exp)
        if key in seen or len(c.violations) >= 5:
            continue
        seen.add(key)
        names = ["%s[..%d]" % (corpus[d - 1]["name"], n) for d, n in path]
        c.violation("receive() after %s: expected %s, got %s" % (names, exp, got), {"kind": "udp", "path": path, "expected": exp})
    return c.finish()


def replay(prop, path, seed):
    with open(path) as f:
        rp = json.load(f)
    work = os.path.join(common.WORK, "C16-replay")
    os.makedirs(work, exist_ok=True)
    ppath = os.path.join(work, "paths.json")
    with open(ppath, "w") as f:
        json.dump([rp["path"]], f)
    out = json.loads(common.run_bin("udp", ["walk", ppath]))
    got = out["results"][0]["outcomes"][-1]
    exp = rp["expected"]
    ok = (got["o"] == "reject") if exp == "reject" else (got["o"] == "accept" and got.get("same"))
    if not ok:
        print("VIOLATION property=%s replay=%s" % (prop, path))
        return 1
    print("replay passes on the current tree")
    return 0
