"""C01-C04, C07, C08, C10, C13, C17-C20: the transaction-layer properties.

For every model configuration serving the property (spec/mc/configs.json):
  1. TLC explores Cfdp.tla exhaustively within the configuration's bounds, evaluating all
     property predicates of Props.tla on every step, and prints every edge of the state graph
     as a script (the action path that leads to it).
  2. Every maximal script is replayed step by step on the real SendTransaction / RecvTransaction
     objects under a virtual clock (harness/replay_t), recording inputs, outputs, indications,
     snapshots and the filestore after every step.
  3. TLC validates every recorded trace (CfdpTrace.tla): the property monitor gives the verdict
     about the code; the conformance part reports where the code left the model (DRIFT).
A VIOLATION is only ever reported for a property predicate that is false on a real execution."""
import hashlib
import json
import os
import time

import cfdpmodel
import common
import dlevel
import pipe
import tlc

CACHE = os.path.join(common.VERIF, ".cache", "scripts")

LEVEL_TEXT = {}


def spec_hash():
    h = hashlib.sha256()
    for d in (common.VERIF + "/spec", common.VERIF + "/spec/mc"):
        for fn in sorted(os.listdir(d)):
            if fn.endswith(".tla") or fn == "configs.json":
                with open(os.path.join(d, fn), "rb") as f:
                    h.update(fn.encode())
                    h.update(f.read())
    with open(common.VERIF + "/lib/cfdpmodel.py", "rb") as f:
        h.update(f.read())
    return h.hexdigest()[:16]


def load_configs():
    with open(common.VERIF + "/spec/mc/configs.json") as f:
        return json.load(f)["configs"]


# configurations whose temporal properties (termination, success) are model-checked under fairness
LIVE_CONFIGS = ("ack", "ack-lim3", "imm", "drop2", "drop2-imm", "unack", "unackc", "cancelS", "cancelR", "cancelS-unackc", "cancelR-unackc",
                "cancelS-black", "cancelR-black",
                "black", "black-unackc", "black-imm", "to-grid-a", "to-grid-b", "defd", "immd")


LIVE_QUICK = ("ack", "drop2", "imm", "unackc", "black", "black-imm", "cancelS-black")


def model(conf, tier, workdir, workers):
    """TLC on one configuration -> dict(states, transitions, depth, scripts, mviol, wall); cached by spec hash"""
    faults = conf["faults"][0 if tier == "quick" else 1]
    key = "%s-%s-%d-%s" % (conf["name"], tier, faults, spec_hash())
    os.makedirs(CACHE, exist_ok=True)
    cp = os.path.join(CACHE, key + ".json")
    if os.path.exists(cp):
        with open(cp) as f:
            d = json.load(f)
        d["cached"] = True
        return d
    cfg = cfdpmodel.mkcfg(**conf["cfg"])
    t0 = time.time()
    r, paths = cfdpmodel.run_model(conf["name"].replace("-", "_"), cfg, faults, conf.get("cmds", []), conf.get("known", []),
                                   workdir, workers=workers, blackouts=conf.get("blackouts", []), injects=conf.get("injects", []),
                                   kinds=conf.get("kinds", cfdpmodel.ALLKINDS), timeout=7200)
    mviol = []
    for tag, v in tlc.tagged(r.text, ("MVIOL",)):
        mviol.append({"viol": sorted([list(x) for x in v[0]]), "path": [list(x) for x in v[1]]})
    if not r.ok and not r.violated:
        raise common.ToolError("TLC did not finish on %s" % conf["name"])
    d = {"name": conf["name"], "cfg": cfg, "faults": faults, "states": r.distinct, "transitions": r.generated,
         "depth": r.depth, "paths": [[list(x) for x in p] for p in paths], "violated": len(mviol) > 0, "mviol": mviol[:5],
         "wall": round(time.time() - t0, 1), "injects": conf.get("injects", [])}
    tmp = cp + ".tmp%d" % os.getpid()
    with open(tmp, "w") as f:
        json.dump(d, f)
    os.replace(tmp, cp)
    d["cached"] = False
    return d


def liveness(prop, conf, tier, workdir):
    """C02 / C03 on the model, for INFINITE behaviours: TLC checks the temporal properties BothEnd (every transaction ends and
    stays ended: no livelock of retransmissions, no endless respawning) and, where the hypotheses of C02 hold by construction,
    Succeeds, under weak fairness of the system's own actions (Cfdp!Fair).  A model-level result: it transfers to the code
    through the conformance check (no DRIFT).  Cached with the model."""
    cmds = [tuple(x) for x in conf.get("cmds", [])]
    handlers = conf["cfg"].get("handlers", {})
    if any(c[1] in ("Suspend",) for c in cmds) or any(v in ("Ignore", "Suspend") for v in handlers.values()):
        return None             # such a transaction legitimately waits for ever
    faults = conf["faults"][0 if tier == "quick" else 1]
    cfg = cfdpmodel.mkcfg(**conf["cfg"])
    props = ["BothEnd"]
    if prop == "C02" and not cmds and not conf.get("blackouts") and not conf.get("injects") and cfg["mode"] == "ack" and faults < cfg["limit"]:
        props.append("Succeeds")
    key = "live-%s-%s-%d-%s-%s" % (conf["name"], tier, faults, "+".join(props), spec_hash())
    cp = os.path.join(CACHE, key + ".json")
    if os.path.exists(cp):
        with open(cp) as f:
            return json.load(f)
    mod, cfgp = cfdpmodel.write_mc("live_" + conf["name"].replace("-", "_"), cfg, faults, conf.get("cmds", []), conf.get("known", []),
                                   os.path.join(workdir, "mc"), emit=False, blackouts=conf.get("blackouts", []),
                                   injects=conf.get("injects", []), kinds=conf.get("kinds", cfdpmodel.ALLKINDS))
    with open(cfgp, "w") as f:
        f.write("SPECIFICATION LiveSpec\nVIEW View\nCHECK_DEADLOCK FALSE\n" + "".join("PROPERTY %s\n" % x for x in props))
    r = tlc.run(mod, cfgp, os.path.join(workdir, "tlc-live-" + conf["name"]), workers=4, timeout=3600, xmx="8g")
    d = {"config": conf["name"], "faults": faults, "properties": props, "states": r.distinct, "holds": bool(r.ok), "wall": round(r.wall, 1)}
    if not r.ok:
        d["tail"] = r.text[-3000:]
    tmp = cp + ".tmp%d" % os.getpid()
    with open(tmp, "w") as f:
        json.dump(d, f)
    os.replace(tmp, cp)
    return d


def timer_lemma(workdir):
    """Unbounded safety of Timer.tla (every timeout >= 1, every limit >= 1, ticks of any length): the inductive invariant and
    the post-conditions of spec/TimerInd.tla discharged by Apalache.  A lemma about the specification of the counter
    (bound to timer.rs by the conformance of every recorded timer snapshot); cached by the hash of the two modules."""
    import hashlib
    import subprocess
    h = hashlib.sha256()
    for fn in ("Timer.tla", "TimerInd.tla"):
        with open(os.path.join(common.VERIF, "spec", fn), "rb") as f:
            h.update(f.read())
    cp = os.path.join(CACHE, "apalache-timer-%s.json" % h.hexdigest()[:16])
    os.makedirs(CACHE, exist_ok=True)
    if os.path.exists(cp):
        with open(cp) as f:
            return json.load(f)
    runs = [("base", ["--init=Init", "--inv=IndInv", "--length=0"], True),
            ("step", ["--init=IndInit", "--inv=IndInv", "--length=1"], True),
            ("post", ["--init=IndInitNew", "--inv=Post", "--length=1"], True),
            ("non-vacuity (must fail)", ["--init=Init", "--inv=NeverFull", "--length=3"], False)]
    out = {"tool": "apalache-mc 0.58", "module": "spec/TimerInd.tla", "obligations": []}
    tmpd = os.path.join(workdir, "apalache-tmp")
    os.makedirs(tmpd, exist_ok=True)
    for name, args, expect_ok in runs:
        t0 = time.time()
        p = subprocess.run(["timeout", "900", "apalache-mc", "check", "--cinit=ConstInit"] + args +
                           ["--out-dir=" + os.path.join(workdir, "apalache"), "TimerInd.tla"],
                           cwd=os.path.join(common.VERIF, "spec"), stdout=subprocess.PIPE, stderr=subprocess.STDOUT, text=True,
                           env=dict(os.environ, JVM_ARGS="-Djava.io.tmpdir=" + tmpd))
        ok = "EXITCODE: OK" in p.stdout
        err = "Checker has found an error" in p.stdout and "EXITCODE: ERROR (12)" in p.stdout
        if not ok and not err:
            # the tool itself failed (crash, time limit): the lemma is auxiliary, the verdict does not depend on it
            common.log("Apalache did not run obligation '%s' to the end: %s" % (name, p.stdout[-400:].replace("\n", " | ")))
            return {"tool": "apalache-mc 0.58", "module": "spec/TimerInd.tla", "not_run": "obligation '%s': tool failure" % name}
        if ok != expect_ok:
            raise common.ToolError("Apalache: obligation '%s' of TimerInd.tla: unexpected outcome\n%s" % (name, p.stdout[-1500:]))
        out["obligations"].append({"name": name, "args": " ".join(args), "outcome": "holds" if ok else "fails as it must", "wall_s": round(time.time() - t0, 1)})
    with open(cp, "w") as f:
        json.dump(out, f)
    return out


def configs_for(prop):
    return [c for c in load_configs() if prop in c["props"]]


def findings_for(prop):
    return [f for f in common.known_findings()["findings"] if f["property"] == prop]


def run(prop, tier, seed, only=None):
    c = common.Check(prop, tier, seed, "model_checking")
    cov = collect(prop, tier, seed, c, only)
    c.coverage = cov
    if cov.pop("model_mismatch", None) and not c.violations:
        c.finish()
        return 2
    return c.finish()


def continuations(prop, conf, name, all_scripts, drifts, c, ncontin, log):
    """at most 6 distinct kinds of drift per configuration: (action, differing parts), earliest occurrence"""
    import contin
    tags = [t for t in TAGS if t.startswith(prop + ":")]
    known = [f["signature"] for f in findings_for(prop)]
    groups = {}
    for d in sorted(drifts, key=lambda d: d["line"]):
        groups.setdefault((d["action"], tuple(d["parts"])), d)
    out = []
    for k, d in list(groups.items())[:4]:
        if ncontin[0] >= 12:
            break
        ncontin[0] += 1
        script = all_scripts[d["id"]]
        trace = pipe.trace_of(os.path.join(c.work, "replay-" + name), d["id"])
        try:
            found, info = contin.search(conf, script, trace, d["line"], tags, known, os.path.join(c.work, "contin"),
                                        "%s_%d" % (name.replace("-", "_").replace("+", "p"), ncontin[0]))
        except Exception as e:      # a continuation that cannot be computed decides nothing
            common.log("%s %s: continuation from %s step %d failed: %s" % (prop, name, d["id"], d["line"], str(e)[:300]))
            continue
        log.append({"config": name, "script": d["id"], "step": d["line"], "action": d["action"], "parts": d["parts"],
                    "states": info.get("states"), "model_counterexample": bool(found), "model_violation": info.get("model_violation")})
        out += found
    return out


def collect(prop, tier, seed, c, only=None):
    """runs the pipeline for `prop`, registers violations / known findings on the Check `c`, returns the coverage dict"""
    confs = [x for x in configs_for(prop) if (only is None or x["name"] in only) and tier in x.get("tiers", (tier,))]
    if not confs:
        raise common.ToolError("no model configuration serves %s" % prop)
    workers = 8
    states = trans = nscripts = nevents = 0
    per_config, samples, drifts = [], [], []
    viols = []          # on real traces
    model_unknown = []
    all_scripts = {}
    # DRIFT policy (DESIGN.md 2.1): a configuration in which the code left the model is explored again with the
    # thorough bounds, looking for a real violation the quick bounds are too small to reach
    queue = [(conf, tier) for conf in confs]
    kf0 = findings_for(prop)

    def unknown(vs):
        """violations that are not recorded findings"""
        return [x for x in vs if not any(x["sig"] and x["sig"] == f["signature"] and x["tag"] in f["tags"] for f in kf0)]
    escalated = []
    candidates = []
    ncontin = [0]
    contin_log = []
    live = []
    exer = {}
    while queue:
        conf, ctier = queue.pop(0)
        if unknown(viols):
            break               # a violation on the real code has been found: report it without exploring the rest
        m = model(conf, ctier, os.path.join(c.work, "model"), workers)
        if prop in ("C02", "C03") and ctier == tier and conf["name"] in (LIVE_QUICK if tier == "quick" else LIVE_CONFIGS):
            lv = liveness(prop, conf, ctier, os.path.join(c.work, "model"))
            if lv:
                live.append({k: lv[k] for k in lv if k != "tail"})
                if not lv["holds"]:
                    raise common.ToolError("the model does not satisfy %s in configuration %s:\n%s" % (lv["properties"], conf["name"], lv.get("tail", "")))
        states += m["states"]
        trans += m["transitions"]
        name = m["name"] + ("+" if ctier != tier else "")
        paths = [tuple(tuple(x) for x in p) for p in m["paths"]]
        scripts = cfdpmodel.scripts_of(name, m["cfg"], paths, m["injects"])
        for s in scripts:
            all_scripts[s["id"]] = s
        t0 = time.time()
        v, st = pipe.run_scripts(scripts, os.path.join(c.work, "replay-" + name), shards=14)
        nscripts += len(scripts)
        nevents += st["events"]
        for k, n in st.get("exercised", {}).items():
            exer[k] = exer.get(k, 0) + n
        mine = [x for x in v if x["tag"].startswith(prop + ":")]
        others = sorted(set(x["tag"] for x in v if not x["tag"].startswith(prop + ":")))
        for x in mine:
            x["config"] = name
        viols += mine
        for d in st["drift"]:
            d["config"] = name
        drifts += st["drift"]
        # DRIFT policy, step 1 (DESIGN.md 2.1): drift-directed continuation - TLC explores the model from the state the
        # real code is in after a drifting step; its counterexamples are replayed on the real code and judged there
        if st["drift"] and not unknown(mine) and not unknown(viols) and ncontin[0] < 12:
            found = continuations(prop, conf, name, all_scripts, st["drift"], c, ncontin, contin_log)
            if found:
                v2, st2 = pipe.run_scripts(found, os.path.join(c.work, "replay-" + name + "~contin"), shards=2)
                nscripts += len(found)
                nevents += st2["events"]
                for s2 in found:
                    all_scripts[s2["id"]] = s2
                mine = [x for x in v2 if x["tag"].startswith(prop + ":")]
                for x in mine:
                    x["config"] = name + "~contin"
                viols += mine
                common.log("%s %s: %d continuation(s) of drifting executions replayed on the real code, %d violation(s) of this property" % (
                    prop, name, len(found), len(mine)))
        # step 2 (after the pass, see below): candidates for a second exploration with the thorough bounds
        if st["drift"] and not unknown(mine) and ctier == "quick" and ctier == tier and conf["faults"][1] > conf["faults"][0]:
            candidates.append((len(st["drift"]) / max(st["events"], 1), m["states"], conf))
        if not queue and candidates and not unknown(viols) and not escalated:
            # the configurations in which the code left the model most often, cheapest first among equals: at most 3
            candidates.sort(key=lambda x: (-round(x[0], 2), x[1]))
            for ratio, _, cf in candidates[:3]:
                escalated.append(cf["name"])
                queue.append((cf, "thorough"))
                common.log("%s %s: DRIFT without violation (%.1f%% of the steps) - escalating to the thorough bounds" % (prop, cf["name"], 100 * ratio))
        # model violations of THIS property that are not recorded findings
        if any(t[0].startswith(prop + ":") for mv in m.get("mviol", []) for t in mv["viol"]):
            model_unknown.append(name)
        per_config.append({"config": name, "faults": m["faults"], "states": m["states"], "transitions": m["transitions"],
                           "depth": m["depth"], "scripts": len(scripts), "events": st["events"],
                           "tlc_s": m["wall"], "tlc_cached": m["cached"], "replay_s": round(time.time() - t0, 1),
                           "violations_of_this_property": len(mine), "tags_of_other_properties_seen": others,
                           "drift_steps": len(st["drift"])})
        if scripts and len(samples) < 3:
            s = scripts[len(scripts) // 2]
            samples.append({"config": name, "script": " ".join(fmt_step(x) for x in s["path"])})
        common.log("%s %s: %d states, %d scripts, %d events, %d viol, %d drift" % (
            prop, name, m["states"], len(scripts), st["events"], len(mine), len(st["drift"])))

    # ---- Level D: the same monitor and conformance check on executions of real Daemons
    rp, dsc = d_scenarios(prop, tier, seed, os.path.join(c.work, "dplans")) if not unknown(viols) else (None, [])
    dres = dlevel.run(dsc, os.path.join(c.work, "d"), shards=14) if dsc else None
    dscen_by_id = {s["id"]: s for s in dsc}
    if dres:
        for x in dres["viol"]:
            if x["tag"].startswith(prop + ":"):
                x["config"] = "level-d"
                viols.append(x)
        for d in dres["drift"]:
            d["config"] = "level-d"
        drifts += dres["drift"]
        common.log("%s level D: %d scenarios, %d transactions, %d events, %d viol, %d drift" % (
            prop, dres["scenarios"], dres["runs"], dres["events"], len([x for x in dres["viol"] if x["tag"].startswith(prop + ":")]), len(dres["drift"])))

    # ---- verdicts
    known = findings_for(prop)
    reported_known = set()
    reported = set()
    for x in viols:
        kf = [f for f in known if x["sig"] and x["sig"] == f["signature"] and x["tag"] in f["tags"]]
        if kf:
            if kf[0]["id"] not in reported_known:
                reported_known.add(kf[0]["id"])
                c.known_finding("%s [%s] %s" % (kf[0]["id"], x["tag"], kf[0]["what"]))
            continue
        key = (x["tag"], x["config"])
        if key in reported or len(c.violations) >= 5:
            continue
        reported.add(key)
        if x["config"] == "level-d":
            sid = x["id"].rsplit("-tx", 1)[0]
            c.violation("%s at step %d of daemon run %s" % (x["tag"], x["line"], x["id"]),
                        {"kind": "d-scenario", "property": prop, "tag": x["tag"], "line": x["line"], "scenario": dscen_by_id.get(sid),
                         "trace": dlevel.trace_of(os.path.join(c.work, "d"), x["id"])})
            continue
        script = all_scripts[x["id"]]
        trace = pipe.trace_of(os.path.join(c.work, "replay-" + x["config"]), x["id"])
        c.violation("%s at step %d of %s: %s" % (x["tag"], x["line"], x["id"], " ".join(fmt_step(s) for s in script["path"][:x["line"]])),
                    {"kind": "cfdp-script", "property": prop, "tag": x["tag"], "line": x["line"], "script": script, "trace": trace})
    for d in drifts[:10]:
        print("DRIFT property=%s config=%s script=%s step=%d action=%s parts=%s" % (prop, d["config"], d["id"], d["line"], d["action"], ",".join(d["parts"])))
    cov = {
        "states": states,
        "transitions": trans,
        "traces_validated_against_impl": nscripts + (dres["runs"] if dres else 0),
        "samples": samples,
        "events_validated": nevents,
        "configs": per_config,
        "exhaustive": True,
        "drift_steps": len(drifts),
        "drift": drifts[:20],
        "escalated_configs": escalated,
        "drift_continuations": contin_log,
        "liveness_on_the_model": live,
        "exercised_on_the_real_code_level_t": dict(sorted(exer.items())),
        "unbounded_timer_lemma": timer_lemma(os.path.join(c.work, "model")) if prop in ("C17", "C03") else None,
        "property_tags": sorted(t for t in TAGS if t.startswith(prop + ":")),
        "level_d": None if not dres else {"fault_plans_from_tlc": rp.distinct, "daemon_scenarios": dres["scenarios"], "transactions_validated": dres["runs"],
                                          "events_validated": dres["events"], "daemon_events": dres["devents"], "drift_steps": len(dres["drift"]),
                                          "sample": (dsc[len(dsc) // 2] if dsc else None)},
        "rule": "every maximal action path of the TLC state graph of each configuration (each edge of the bounded graph lies on one) replayed on the real "
                "transaction objects; every recorded step judged by the Props.tla monitor and compared with the model's prediction (CfdpTrace.tla)",
    }
    c.assumptions = [
        "A1 timers are serviced before the next deadline; A2 local steps are urgent (DESIGN.md 3.2)",
        "Level T mirrors three lines of loop policy of lib.rs (send gate, UnexpectedPDU swallowed, exit on Terminated); lib.rs itself is covered by the Level D checks",
        "TLC, the community modules, the projector (harness/src/proj.rs)",
    ]
    if model_unknown and not viols:
        common.log("MODEL-MISMATCH: the model violates a property in %s but no real execution does" % model_unknown)
        cov["model_mismatch"] = model_unknown
    return cov


FSREQ = [{"a": "AppendFile", "f1": "f1", "f2": "f2"}, {"a": "CreateFile", "f1": "f1", "f2": ""}, {"a": "DeleteFile", "f1": "f2", "f2": ""}]
PRE = {"f1": ["f", 3], "f2": ["f", 5]}


def d_scenarios(prop, tier, seed, workdir):
    """Level D scenario set of a property: real daemons under TLC-enumerated fault plans / command points"""
    F = 1 if tier == "quick" else 2
    r, plans = dlevel.fault_plans(workdir, F, blackouts=(prop in ("C03", "C10", "C17", "C18") or tier != "quick"))
    noblack = [p for p in plans if p["cut"]["dir"] == "none"]
    drops = [p for p in noblack if all(f["a"] == "drop" for f in p["faults"])][: (12 if tier == "quick" else 60)]
    dups = [p for p in noblack if p["faults"] and all(f["a"] == "dup" for f in p["faults"])]
    ack = ("ack", {}, "ack")
    imm = ("imm", {"nakproc": "imm", "delay": 1}, "ack")
    unack = ("unack", {}, "unack")
    unackc = ("unackc", {"closure": True}, "unack")
    lim3 = ("lim3", {"limit": 3}, "ack")
    times = [0, 1, 2, 3, 5] if tier == "quick" else [0, 1, 2, 3, 4, 5, 7, 9]
    sc = []
    if prop in ("C01", "C02"):
        sc += dlevel.family_plans(noblack, tier, [ack, imm, lim3] + ([unack, unackc] if prop == "C01" else []))
    elif prop == "C03":
        sc += dlevel.family_plans(plans, tier, [ack, unackc])
    elif prop == "C04":
        for i, p in enumerate(dups + drops[:6]):
            sc.append(dlevel.single("c04-%d" % i, dlevel.dcfg(pre=PRE), "ack", p, fsreqs=FSREQ))
    elif prop in ("C07", "C08"):
        sc += dlevel.family_plans(noblack, tier, [("seg3", {"seg": 3}, "ack"), imm])
        for s in sc:
            s["puts"][0]["file"] = [1, 2, 0, 1, 1]
    elif prop == "C10":
        sc += dlevel.family_cmds(tier, [ack, unack, unackc], [("cancelS", [(1, "Cancel", 0)]), ("cancelR", [(2, "Cancel", 0)])], times, drops[:6])
    elif prop == "C13":
        for i, p in enumerate(noblack):
            sc.append(dlevel.single("c13-%d" % i, dlevel.dcfg(pre=PRE), "ack", p, fsreqs=FSREQ))
        sc.append(dlevel.single("c13-nofile", dlevel.dcfg(pre=PRE), "ack", dlevel.NOPLAN, fsreqs=FSREQ[:1], isfile=False, file=()))
    elif prop == "C17":
        hs = [("hdef", {}, "ack"), ("hign", {"handlers": {"PositiveLimitReached": "Ignore", "NakLimitReached": "Ignore", "InactivityDetected": "Ignore"}}, "ack"),
              ("hsus", {"handlers": {"PositiveLimitReached": "Suspend", "NakLimitReached": "Suspend", "InactivityDetected": "Suspend"}}, "ack"),
              ("habn", {"handlers": {"PositiveLimitReached": "Abandon", "NakLimitReached": "Abandon", "InactivityDetected": "Abandon"}}, "ack")]
        cuts = [p for p in plans if p["cut"]["dir"] != "none" and not p["faults"]]
        sc += dlevel.family_plans(cuts, tier, hs)
        for s in sc:
            if "hign" in s["id"] or "hsus" in s["id"]:
                s["horizon"] = 40000
    elif prop == "C18":
        sc += dlevel.family_plans(plans if tier != "quick" else noblack, tier, [unack, unackc])
    elif prop == "C19":
        sets = [("suspS", [(1, "Suspend", 0), (1, "Resume", 1)]), ("suspS-long", [(1, "Suspend", 0), (1, "Resume", 15)]),
                ("suspR", [(2, "Suspend", 0), (2, "Resume", 1)]), ("suspR-long", [(2, "Suspend", 0), (2, "Resume", 15)])]
        sc += dlevel.family_cmds(tier, [ack, unackc], sets, times, drops[:4])
    elif prop == "C20":
        sets = [("ka", [(1, "PromptKeepAlive", 0)]), ("pnak", [(1, "PromptNak", 0)]), ("susp", [(1, "Suspend", 0), (1, "Resume", 2)]),
                ("suspR", [(2, "Suspend", 0), (2, "Resume", 2)])]
        sc += dlevel.family_cmds(tier, [ack, imm], sets, times, drops[:4])
    return r, sc


def fmt_step(s):
    a = s["a"]
    if a in ("Deliver", "Drop", "Dup"):
        return "%s(%s%d)" % (a, s["ch"], s["i"])
    if a == "Tick":
        return "Tick(%d)" % s["d"]
    if a in ("S_Cmd", "R_Cmd"):
        return "%s:%s" % (a, s["c"])
    if a in ("Inject", "Blackout"):
        return "%s(%s)" % (a, s["ch"])
    return a


TAGS = [
    "C01:DeliveredIsSource", "C02:RecoversOK", "C03:IdleBound", "C03:NoSpin",
    "C04:FileChanged", "C04:RequestsRedone", "C04:IntegrityFaultAfterDelivery", "C04:SenderSuccessWithoutDelivery",
    "C07:Header", "C07:DataContent", "C07:UnsolicitedData", "C07:MetadataWrong", "C07:EofWrong", "C07:EofBeforeData", "C07:NakNotAnswered",
    "C08:NakWellFormed", "C08:DeferredQuiet", "C08:NakCoversMissing", "C08:NakAsksForHeld",
    "C10:NoPartialFile", "C10:DeliveredAfterCancel", "C10:CancelEnds", "C10:CancelReported",
    "C13:RequestsOutsideDelivery", "C13:ResponsesDiffer", "C13:RequestsNotRun",
    "C17:FaultExact", "C17:HandlerAsConfigured",
    "C18:OneWay", "C18:EndsOnEof", "C18:ClosureFinished", "C18:ClosureTruthful", "C18:ClosureSenderWaits",
    "C18:ClosureReported", "C18:IncompleteNotComplete",
    "C19:QuietWhileSuspended", "C19:NoFaultWhileSuspended", "C19:TimersFrozen",
    "C20:ReceiverProgress", "C20:SenderProgress",
]


def replay(prop, path, seed):
    with open(path) as f:
        rp = json.load(f)
    work = os.path.join(common.WORK, prop + "-replay")
    if rp.get("kind") == "d-scenario":
        res = dlevel.run([rp["scenario"]], work, shards=1)
        v = res["viol"]
    else:
        v, st = pipe.run_scripts([rp["script"]], work, shards=1)
    known = findings_for(prop)
    bad = [x for x in v if x["tag"].startswith(prop + ":") and not any(x["sig"] and x["sig"] == f["signature"] for f in known)]
    if bad:
        print("VIOLATION property=%s replay=%s" % (prop, path))
        for x in bad[:3]:
            common.log("  %s at step %d" % (x["tag"], x["line"]))
        return 1
    print("replay passes on the current tree")
    return 0
