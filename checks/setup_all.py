"""setup: pre-parse every specification with SANY so that a broken spec is found at once"""
import glob
import os
import subprocess
import common


def run():
    libs = os.pathsep.join([common.VERIF + "/spec", common.VERIF + "/spec/mc", common.VERIF + "/spec/trace"])
    bad = []
    # (TimerInd.tla extends Apalache's own module: it is parsed and type-checked by apalache-mc, see cfdp_family.timer_lemma)
    for f in sorted(x for x in glob.glob(common.VERIF + "/spec/*.tla") + glob.glob(common.VERIF + "/spec/mc/*.tla") + glob.glob(common.VERIF + "/spec/trace/*.tla") if not x.endswith("/TimerInd.tla")):
        p = subprocess.run(["java", "-cp", "/opt/veriftools/tla/tla2tools.jar:/opt/veriftools/tla/CommunityModules-deps.jar",
                            "-DTLA-Library=" + libs, "tla2sany.SANY", f], cwd=os.path.dirname(f),
                           stdout=subprocess.PIPE, stderr=subprocess.STDOUT, text=True)
        if p.returncode != 0 or "Semantic errors" in p.stdout or "Parse Error" in p.stdout or "Fatal errors" in p.stdout:
            bad.append(f)
            print(p.stdout[-1500:])
    if bad:
        raise common.ToolError("specs do not parse: %s" % bad)
    print("all specifications parse")
