"""C14 - the file checksum is the CCSDS modular checksum however the data is read.

Checksum.tla: the definition (Sum) and the chunk-fed accumulator with a carried remainder;
TLC checks Finish(Feed*(chunks)) = Sum for every chunking of every length <= N and prints the
(length, position, chunk) graph.  The harness replays every path of the graph (every
composition) through the real `checksum()` behind a scripted reader, plus seeded random
contents / chunkings and lengths straddling 8 KiB; every recorded result is then validated
by TLC against Sum (ChecksumTrace.tla)."""
import json
import os

import common
import tlc

TIERS = {
    "quick": dict(N=10, K=9, nrand=300, big=1),
    "thorough": dict(N=14, K=9, nrand=5000, big=1),
}


def run(prop, tier, seed):
    t = TIERS[tier]
    c = common.Check(prop, tier, seed, "model_checking")
    cfg = os.path.join(c.work, "MC_Checksum.cfg")
    with open(common.VERIF + "/spec/mc/MC_Checksum.cfg") as f:
        text = f.read().replace("CONSTANT N = 10", "CONSTANT N = %d" % t["N"]).replace("CONSTANT K = 9", "CONSTANT K = %d" % t["K"])
    with open(cfg, "w") as f:
        f.write(text)
    r = tlc.run(common.VERIF + "/spec/mc/MC_Checksum.tla", cfg, os.path.join(c.work, "tlc"), workers=1, timeout=1200)
    if r.violated:
        raise common.ToolError("Checksum.tla: %s violated in the model - the specification is wrong" % r.violated)
    files, edges = [], []
    for tag, v in tlc.tagged(r.text, ("FILE", "EDGE")):
        if tag == "FILE":
            files.append({"n": v[0], "bytes": v[1], "sum": v[2]})
        else:
            edges.append(v)
    gpath = os.path.join(c.work, "graph.json")
    with open(gpath, "w") as f:
        json.dump({"files": files, "edges": edges}, f)
    trace = os.path.join(c.work, "trace.ndjson")
    out = json.loads(common.run_bin("cksum", [gpath, trace, seed, t["nrand"], t["big"]]))
    # TLC judges every recorded value
    tr = tlc.run(common.VERIF + "/spec/trace/ChecksumTrace.tla", common.VERIF + "/spec/trace/ChecksumTrace.cfg", os.path.join(c.work, "tlc-trace"),
                 workers=1, timeout=1800, env={"TRACE": trace}, jvm=["-Xss1g"])
    bad, consumed = [], None
    for tag, v in tlc.tagged(tr.text, ("BAD", "CONSUMED")):
        if tag == "BAD":
            bad.append(v)
        else:
            consumed = v
    if consumed is None or consumed[0] != consumed[1] or consumed[1] != out["records"]:
        raise common.ToolError("trace not fully consumed by TLC: %s (records %d)" % (consumed, out["records"]))
    recs = [json.loads(l) for l in open(trace)]
    c.coverage = {
        "states": r.distinct,
        "transitions": r.generated,
        "traces_validated_against_impl": out["records"],
        "samples": out["samples"],
        "evaluations": out["evaluations"],
        "chunkings_from_tlc_graph": out["chunkings_from_graph"],
        "distinct_content_result_pairs_validated_by_tlc": out["records"],
        "with_displaced_cursor": out["with_displaced_cursor"],
        "failing_reader_error_reported": out["failing_reader_error_reported"],
        "failing_reader_value_returned_and_judged": out["failing_reader_value_returned"],
        "constants": t,
        "tlc_invariants": ["ChunkingIrrelevant", "PrefixSum"],
        "exhaustive": True,
        "rule": "every chunking (composition into chunks of 1..K bytes) of every length 0..N from the TLC graph of MC_Checksum, on the spec's pattern content and on seeded random "
                "content; seeded random contents/chunkings of length < 40; lengths 8188..8197 and 16380..16389 with chunk plans {whole, 8191, 8193, 1..9 cyclic, 3, ...}; "
                "every chunking of the lengths <= 7 also behind a reader whose j-th read fails (every j; Interrupted / Other): an Ok result is judged against Sum of the whole content (Checksum!Contract); "
                "each distinct (content, result) pair is a trace record judged by TLC against Sum in Checksum.tla; Null checksum must be 0",
    }
    c.assumptions = ["TLC evaluates Sum with two 16-bit lanes (exact below 32768 words)", "the scripted reader returns exactly the planned chunk sizes (BufReader caps them at 8192)"]
    for e in out["errors_or_panics"][:3]:
        c.violation("checksum() returned an error or panicked: %s" % e, {"kind": "checksum-error", "case": e})
    for v in bad[:5]:
        rec = recs[v[0] - 1]
        small = {"bytes": rec["bytes"] if len(rec["bytes"]) <= 64 else "len %d" % len(rec["bytes"]), "reads": rec["reads"][:20]}
        c.violation("checksum of %s read in chunks %s: expected %s got %s (null: %s)" % (small["bytes"], small["reads"], v[1], v[2], v[3]),
                    {"kind": "checksum", "record": rec, "expected": v[1]})
    return c.finish()


def replay(prop, path, seed):
    with open(path) as f:
        rp = json.load(f)
    work = os.path.join(common.WORK, "C14-replay")
    os.makedirs(work, exist_ok=True)
    rec = rp["record"]
    gpath = os.path.join(work, "graph.json")
    # a graph with the single recorded chunking
    n = len(rec["bytes"])
    edges, pos = [], 0
    reads = [k for k in rec["reads"] if k > 0]      # (a 0 marks a record of a failing reader: the reads before the failure)
    if sum(reads) < n:
        reads.append(n - sum(reads))
    for k in reads:
        edges.append([n, pos, k])
        pos += k
    with open(gpath, "w") as f:
        json.dump({"files": [{"n": n, "bytes": rec["bytes"], "sum": rp["expected"]}], "edges": edges}, f)
    trace = os.path.join(work, "trace.ndjson")
    common.run_bin("cksum", [gpath, trace, seed, 0, 0])
    tr = tlc.run(common.VERIF + "/spec/trace/ChecksumTrace.tla", common.VERIF + "/spec/trace/ChecksumTrace.cfg", os.path.join(work, "tlc"),
                 workers=1, env={"TRACE": trace}, jvm=["-Xss1g"])
    recs = [json.loads(l) for l in open(trace)]
    bad = [v for tag, v in tlc.tagged(tr.text, ("BAD",)) if recs[v[0] - 1]["bytes"] == rec["bytes"]]
    if bad:
        print("VIOLATION property=%s replay=%s" % (prop, path))
        return 1
    print("replay passes on the current tree")
    return 0
