"""C09 - the receiver's account of which bytes it holds is exact.

Segments.tla is the specification (the segment list refines 'set of bytes held');
TLC checks the laws of its operators and emits the complete reachable state graph
(every state with the value of every query, every edge with the value merge returns);
the harness walks every path of that graph up to a depth on the real `Segments`
object and on stretched coordinate maps reaching 2^64-1, comparing every return value."""
import json
import os

import common
import tlc

TIERS = {
    # M: universe, depth: all paths of this length, maps: stretched coordinate maps
    "quick": dict(M=6, depth=4, maps=12, rpaths=200, rlen=12),
    "thorough": dict(M=8, depth=5, maps=40, rpaths=2000, rlen=20),
}


def mask(cells):
    m = 0
    for c in cells:
        m |= 1 << c
    return m


def graph(c, M):
    cfg = os.path.join(c.work, "MC_Segments.cfg")
    with open(common.VERIF + "/spec/mc/MC_Segments.cfg") as f:
        text = f.read().replace("CONSTANT M = 6", "CONSTANT M = %d" % M)
    with open(cfg, "w") as f:
        f.write(text)
    r = tlc.run(common.VERIF + "/spec/mc/MC_Segments.tla", cfg, os.path.join(c.work, "tlc"), workers=1, timeout=1200)
    if r.violated:
        raise common.ToolError("Segments.tla violates its own law %s - the specification is wrong" % r.violated)
    states, edges = {}, {}
    for tag, v in tlc.tagged(r.text, ("STATE", "EDGE")):
        if tag == "STATE":
            held, ranges, comp, gaps = v
            states[str(mask(held))] = {
                "ranges": ranges,
                "complete": [comp[n] for n in range(M + 1)],
                "gaps": {"%d,%d" % k: g for k, g in gaps.items()},
            }
        else:
            held, a, b, cnt, held2 = v
            edges.setdefault(str(mask(held)), []).append([a, b, cnt, mask(held2)])
    if len(states) != r.distinct or sum(len(e) for e in edges.values()) != r.generated - 1:
        raise common.ToolError("graph dump incomplete: %d states / %d edges vs TLC %d / %d" % (
            len(states), sum(len(e) for e in edges.values()), r.distinct, r.generated - 1))
    path = os.path.join(c.work, "graph.json")
    with open(path, "w") as f:
        json.dump({"M": M, "states": states, "edges": edges}, f)
    return r, path


def run(prop, tier, seed):
    t = TIERS[tier]
    c = common.Check(prop, tier, seed, "model_checking")
    r, gpath = graph(c, t["M"])
    out = json.loads(common.run_bin("seg", [gpath, t["depth"], t["maps"], seed, t["rpaths"], t["rlen"]]))
    c.coverage = {
        "states": r.distinct,
        "transitions": r.generated - 1,
        "traces_validated_against_impl": out["evaluations"],
        "samples": out["samples"],
        "calls_compared": out["calls_compared"],
        "coordinate_maps": out["maps"],
        "graph_states_reached_on_impl": out["states_reached_identity"],
        "graph_edges_walked_on_impl": out["edges_walked_identity"],
        "exhaustive": out["states_reached_identity"] == r.distinct and out["edges_walked_identity"] == r.generated - 1,
        "constants": t,
        "tlc_invariants": ["ProgressIsCardinality", "CompleteLaw", "GapsLaw", "RangesLaw"],
        "rule": "every path of length <= depth in the TLC state graph of Segments.tla (universe M) replayed from scratch on the real Segments; "
                "after the last merge its return value, the stored ranges, len/end, is_complete(n) for every n and gaps(a,b) for every window are compared "
                "with the graph; repeated on seeded stretched coordinate maps with offsets up to 2^64-1 plus seeded long random paths",
    }
    c.assumptions = ["TLC and the community modules", "the harness maps model cells to real offsets through a strictly increasing boundary vector"]
    for v in out["violations"][:5]:
        c.violation("%s: expected %s got %s after %s" % (v["what"], v["expected"], v["got"], v["real_path"]),
                    {"kind": "segments", "M": t["M"], "violation": v})
    return c.finish()


def replay(prop, path, seed):
    with open(path) as f:
        rp = json.load(f)
    c = common.Check(prop, "quick", seed, "model_checking")
    r, gpath = graph(c, rp["M"])
    v = rp["violation"]
    out = json.loads(common.run_bin("seg", [gpath, "path", json.dumps(v["path"]), json.dumps(v["bnd"])]))
    if out["violations"]:
        print("VIOLATION property=%s replay=%s" % (prop, path))
        for x in out["violations"][:3]:
            common.log("  %s: expected %s got %s" % (x["what"], x["expected"], x["got"]))
        return 1
    print("replay passes on the current tree")
    return 0
