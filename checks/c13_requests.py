"""C13 - filestore requests act as CFDP defines, once, in order, reported truthfully.

Part 1 (this module): Filestore.tla gives every request its status and effect as a function of the
filesystem state; TLC checks 'a failed request changes nothing' and 'after the first failure the
rest is not performed' on the specification and prints the labelled state graph of all request
sequences up to a depth over a small namespace (two files, a directory with an entry, free names).
The harness walks every sequence on a real NativeFileStore in a temp tree; status octet and the
whole tree are compared with the graph after every request.
Part 2 (cfdp_family): within a transaction the requests run only after a successful delivery,
once, and the same responses reach the receiving user, the Finished PDU and the sending user -
checked by the Props.tla monitor on the replayed transaction scripts."""
import json
import os

import cfdp_family
import common
import tlc

# quick: every request sequence up to depth 2; thorough: the depth-4 graph, every EDGE once along a shortest path
# (all sequences of depth 3 are 3.4 million temp-tree rebuilds: hours, for no new (state, request) pair)
TIERS = {"quick": dict(Depth=2, mode=[]), "thorough": dict(Depth=4, mode=["edges"])}


def run(prop, tier, seed, only=None):
    t = TIERS[tier]
    c = common.Check(prop, tier, seed, "model_checking")
    cfg = os.path.join(c.work, "MC_Filestore.cfg")
    with open(common.VERIF + "/spec/mc/MC_Filestore.cfg") as f:
        text = f.read().replace("CONSTANT Depth = 2", "CONSTANT Depth = %d" % t["Depth"])
    with open(cfg, "w") as f:
        f.write(text)
    r = tlc.run(common.VERIF + "/spec/mc/MC_Filestore.tla", cfg, os.path.join(c.work, "tlc"), workers=4, timeout=3600)
    if r.violated:
        raise common.ToolError("Filestore.tla violates its own law %s: the specification is wrong" % r.violated)
    edges = []
    init = None
    for tag, v in tlc.tagged(r.text, ("EDGE",)):
        fs, rq, st, fs2 = v
        fs = fs if isinstance(fs, dict) else {}
        fs2 = fs2 if isinstance(fs2, dict) else {}
        edges.append([fs, rq, st, fs2])
    init = {"f1": ["f", 3], "f2": ["f", 5], "d1": ["d", 0], "d1/x": ["f", 7]}
    gpath = os.path.join(c.work, "graph.json")
    with open(gpath, "w") as f:
        json.dump({"edges": edges, "init": init}, f)
    out = json.loads(common.run_bin("fs", ["reqs", gpath, t["Depth"]] + t["mode"], timeout=7200))
    part1 = {
        "states": r.distinct, "transitions": r.generated,
        "request_sequences_replayed": out["sequences"], "requests_executed": out["requests"],
        "tlc_invariants": ["FailureChangesNothing", "FailTheRest", "WellFormed"], "constants": t,
    }
    for v in out["violations"][:3]:
        c.violation("request sequence %s: expected status %s got %s; tree %s vs %s" % (
            v.get("seq"), v.get("expected_status"), v.get("got_status"), v.get("expected_tree"), v.get("got_tree")),
            {"kind": "requests", "violation": v, "Depth": t["Depth"]})
    # part 2: end to end, through the transaction scripts
    common.sweep_jails()
    c2 = cfdp_family.collect(prop, tier, seed, c, only)
    c.coverage = dict(c2, **{
        "states": part1["states"] + c2["states"],
        "transitions": part1["transitions"] + c2["transitions"],
        "traces_validated_against_impl": out["sequences"] + c2["traces_validated_against_impl"],
        "samples": out["samples"][:2] + c2["samples"],
        "filestore_graph": part1,
        "rule": "part 1: every sequence of <= Depth requests (9 actions x names {f1,f2,d1,d1/x,g}) from the TLC graph of MC_Filestore on a real temp tree, status and tree compared after each; "
                "part 2: " + c2["rule"],
    })
    return c.finish()


def replay(prop, path, seed):
    with open(path) as f:
        rp = json.load(f)
    if rp.get("kind") == "cfdp-script":
        return cfdp_family.replay(prop, path, seed)
    return run(prop, "quick", seed)
