-------------------------------- MODULE Daemon0 -------------------------------
(***************************************************************************)
(* The daemon layer (cfdp-daemon/src/lib.rs:352-650): sequence numbers for *)
(* Put requests, routing of inbound PDUs to transaction tasks by           *)
(* (source entity, sequence number), spawning of receive transactions,     *)
(* reaping of finished tasks.  Property C11.                               *)
(*                                                                         *)
(* Transactions are abstracted to their life cycle; what travels on the    *)
(* network is a PDU header <<source, seq, direction>> addressed to an      *)
(* entity - including arbitrary stray headers.                             *)
(*                                                                         *)
(* chan[e] is the daemon's transaction_channels map of entity e:           *)
(*   key -> [role, st]  st = "live" (task running) | "closed" (task ended, *)
(*   entry not yet reaped).  Operators are functional (Route, ...) so that *)
(* DaemonTrace.tla can validate recorded routing decisions with them.      *)
(***************************************************************************)
EXTENDS Integers, Sequences, FiniteSets, TLC

CONSTANTS Entities,      \* entity ids
          MaxSeq,        \* sequence numbers 0..MaxSeq-1 are handed out (no wrap inside the model)
          Strays         \* stray headers that may arrive: set of [to, src, seq, dir]

Keys == Entities \X (0 .. MaxSeq)

\* -------- routing decision of forward_pdu for entity e  (lib.rs:433-539)
\* ch: the entity's channel map (function on a set of keys), hasTransport: set of entities it can reach
\* peer: the entity the transaction would answer to (destination for ToSender PDUs, source otherwise)
Route(ch, hasTransport, src, seq, dir, peer) ==
  LET key == <<src, seq>>
  IN IF key \in DOMAIN ch THEN
        IF ch[key].st = "live" THEN [outcome |-> "occupied", ch |-> ch]
        ELSE \* the task has ended: the send fails
             IF dir = "ToReceiver"
             THEN IF peer \in hasTransport
                  THEN [outcome |-> "respawn", ch |-> [ch EXCEPT ![key] = [role |-> "R", st |-> "live"]]]
                  ELSE [outcome |-> "closed_no_transport", ch |-> ch]
             ELSE [outcome |-> "unable_to_resume", ch |-> ch]
     ELSE IF peer \notin hasTransport THEN [outcome |-> "no_transport", ch |-> ch]
     ELSE IF dir = "ToReceiver"
          THEN [outcome |-> "spawn_recv", ch |-> [k \in (DOMAIN ch) \cup {key} |-> IF k = key THEN [role |-> "R", st |-> "live"] ELSE ch[k]]]
          ELSE [outcome |-> "unable_to_resume", ch |-> ch]

=============================================================================
