------------------------------ MODULE Checksum ------------------------------
(***************************************************************************)
(* The CCSDS modular checksum (property C14): the 32-bit wrapping sum of   *)
(* the big-endian words of the zero-padded content.                        *)
(*                                                                         *)
(* TLC integers are 32-bit signed, so a checksum is a pair <<hi, lo>> of   *)
(* 16-bit halves.                                                          *)
(*                                                                         *)
(*  Sum(bytes)       the definition (what sender and receiver both have    *)
(*                   to compute, however the file is read)                 *)
(*  Feed / Finish    the implementation-shaped accumulator of              *)
(*                   cfdp-core/src/filestore.rs:414-462: data arrives in   *)
(*                   chunks of arbitrary length (whatever the underlying   *)
(*                   reader returns); the bytes of an incomplete word are  *)
(*                   carried over to the next chunk.                       *)
(***************************************************************************)
EXTENDS Integers, Sequences, TLC

Zero == <<0, 0>>

ByteAt(bytes, i) == IF i <= Len(bytes) THEN bytes[i] ELSE 0     \* zero padding
NWords(bytes) == (Len(bytes) + 3) \div 4

\* the definition; both 16-bit lanes are summed separately (no overflow below
\* 32768 words) and the carry of the low lane is added to the high lane
Sum(bytes) ==
  LET n == NWords(bytes)
      lo[w \in 0 .. n] == IF w = 0 THEN 0
                          ELSE lo[w - 1] + ByteAt(bytes, 4 * w - 1) * 256 + ByteAt(bytes, 4 * w)
      hi[w \in 0 .. n] == IF w = 0 THEN 0
                          ELSE hi[w - 1] + ByteAt(bytes, 4 * w - 3) * 256 + ByteAt(bytes, 4 * w - 2)
  IN  <<(hi[n] + (lo[n] \div 65536)) % 65536, lo[n] % 65536>>

\* ------------------------------------------------ chunked accumulator
\* add one big-endian word to a checksum, modulo 2^32
AddWord(c, b) ==
  LET lo == c[2] + b[3] * 256 + b[4]
      hi == c[1] + b[1] * 256 + b[2] + (lo \div 65536)
  IN  <<hi % 65536, lo % 65536>>

\* accumulator state: [ck |-> checksum so far, pend |-> bytes of an incomplete word]
AccInit == [ck |-> Zero, pend |-> <<>>]

FeedByte(acc, b) ==
  LET p == Append(acc.pend, b)
  IN  IF Len(p) = 4 THEN [ck |-> AddWord(acc.ck, p), pend |-> <<>>]
      ELSE [ck |-> acc.ck, pend |-> p]

\* one chunk as returned by the reader
Feed(acc, chunk) ==
  LET f[i \in 0 .. Len(chunk)] == IF i = 0 THEN acc ELSE FeedByte(f[i - 1], chunk[i])
  IN  f[Len(chunk)]

\* end of data: a trailing incomplete word is padded with zeros
Finish(acc) ==
  IF acc.pend = <<>> THEN acc.ck
  ELSE AddWord(acc.ck, [i \in 1 .. 4 |-> ByteAt(acc.pend, i)])

\* ------------------------------------------------ readers that fail
\* The underlying reader may FAIL at any read.  The call then reports the error
\* (res = "err") or - a transient failure it chose to retry - still the
\* checksum of the WHOLE content; the sum of the chunks fed before the failure
\* (PrefixResult) is never an acceptable answer unless it happens to equal Sum.
Contract(bytes, res) == res = "err" \/ res = Sum(bytes)
PrefixResult(chunksFed) ==
  LET f[i \in 0 .. Len(chunksFed)] == IF i = 0 THEN AccInit ELSE Feed(f[i - 1], chunksFed[i])
  IN  Finish(f[Len(chunksFed)])

=============================================================================
