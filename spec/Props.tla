------------------------------- MODULE Props -------------------------------
(***************************************************************************)
(* The listed properties of the transaction layer (C01-C04, C07, C08, C10, *)
(* C13, C17-C20) as predicates over OBSERVATIONS.                          *)
(*                                                                         *)
(* An observation state `o` is computed from input/output events only:     *)
(* PDUs put on and taken off the link, indications delivered to the two    *)
(* users, user commands, elapsed time, the destination file and directory  *)
(* tree as read by the projector, and whether the two transaction tasks    *)
(* are alive.  It never reads the internal state of the implementation     *)
(* (one exception, flagged below: NoSpin reads the `until` figure, which   *)
(* is the argument of the loop's sleep).                                   *)
(*                                                                         *)
(* The same operators run on the events of the model (Cfdp.tla, where TLC  *)
(* explores every interleaving) and on events recorded from the real code  *)
(* (CfdpTrace.tla).                                                        *)
(*                                                                         *)
(* Step(o, ev, C) = [o |-> next observation state, v |-> set of violated   *)
(* property tags in this step].  C is the configuration record of the run. *)
(***************************************************************************)
EXTENDS Integers, Sequences, FiniteSets, TLC

Ents == {"S", "R"}
Other(e) == IF e = "S" THEN "R" ELSE "S"

Max2(a, b) == IF a > b THEN a ELSE b
Min2(a, b) == IF a < b THEN a ELSE b

\* ------------------------------------------------------------ configuration
NUnits(C) == Len(C.file)                  \* file size in units
AllUnits(C) == 0 .. (NUnits(C) - 1)
Handler(C, cond) == IF cond \in DOMAIN C.handlers THEN C.handlers[cond] ELSE "Cancel"
ToInact(C) == C.to[1]
ToAck(C) == C.to[2]
ToNak(C) == C.to[3]
\* C03: a bound fixed by the configured timeouts and limits
Bound(C) == (C.limit + 1) * (ToInact(C) + ToAck(C) + ToNak(C)) + C.delay + 1

Units(a, b) == a .. (b - 1)

NoFin == [set |-> FALSE, cond |-> "NoError", deliv |-> "Incomplete", fstat |-> "Unreported", resp |-> <<>>]
FinOf(x) == [set |-> TRUE, cond |-> x.cond, deliv |-> x.deliv, fstat |-> x.fstat, resp |-> x.resp]

IntegrityConds == {"FileChecksumFailure", "FilesizeError"}

\* a Finished indication / PDU that claims a successful complete delivery
IsSucc(x, C) == x.cond = "NoError" /\ x.deliv = "Complete" /\ (C.isfile => x.fstat = "Retained")

TxKinds == {"eof", "fin", "nak"}

\* the modular checksum of the held part equals that of the whole file (the same weights as Receiver!CkOf: a unit of
\* value 1 counts +1, of value 2 counts -1; one-byte units are summed per byte lane) - the loss is checksum-neutral
PCkW(v) == IF v = 2 THEN -1 ELSE v
PCkOf(C, held) ==
  LET L == IF C.unit >= 4 THEN 1 ELSE 4
      lane(j) == LET us == {u \in held : u % L = j /\ u < NUnits(C)}
                     f[S \in SUBSET us] == IF S = {} THEN 0
                                            ELSE LET x == CHOOSE y \in S : TRUE IN f[S \ {x}] + PCkW(C.file[x + 1])
                 IN f[us]
  IN [j \in 0 .. (L - 1) |-> lane(j)]
PCkNeutral(C, held) == C.cksum = "null" \/ PCkOf(C, held) = PCkOf(C, AllUnits(C))

ObsInit(C) ==
  [ susp      |-> [e \in Ents |-> FALSE],   \* suspended by the user
    excused   |-> [e \in Ents |-> FALSE],   \* a limit fault configured Ignore/Suspend has occurred
    cancel    |-> [e \in Ents |-> FALSE],   \* the user cancelled at e
    cancelEff |-> FALSE,                    \* ... before the delivery was complete
    cancelAtR |-> FALSE,                    \* a user's cancel has taken effect at the (current) receiver
    eofCancelRx |-> FALSE,                  \* the sender's EOF(cancel) reached the (current) receiver before it had delivered
    finCancelRx |-> FALSE,                  \* the receiver's Finished(cancel) reached the sender
    kf        |-> FALSE,                    \* the recorded finding (complete delivery reported with data / metadata missing) occurred
    sinceCancel |-> [e \in Ents |-> 0],
    repCancel |-> [e \in Ents |-> FALSE],   \* e reported the cancel condition
    ncancel   |-> 0,
    nsusp     |-> 0,
    everSusp  |-> [e \in Ents |-> FALSE],   \* e has been suspended by the user at some time (current incarnation)
    suspTime  |-> 0,                        \* time passed while an entity was suspended by the user
    nfaults   |-> 0,                        \* link faults so far (drop, dup, reorder, delay, corrupt)
    adversary |-> FALSE,                    \* PDUs not produced by the peer were injected
    held      |-> {},                       \* units delivered to the receiver (current incarnation)
    rxMeta    |-> FALSE,
    rxEof     |-> FALSE,
    rinc      |-> 0,
    born      |-> [e \in Ents |-> e = "S"],
    ended     |-> [e \in Ents |-> FALSE],
    everFault |-> [e \in Ents |-> FALSE],
    succ      |-> [e \in Ents |-> FALSE],
    delivered |-> FALSE,
    destAt    |-> [st |-> "absent", len |-> 0],
    tree      |-> C.pre,
    idle      |-> [e \in Ents |-> 0],
    fp        |-> 0,                        \* first-pass pointer of the sender
    pend      |-> {},                       \* requested pieces not yet retransmitted
    pendMeta  |-> FALSE,                    \* Metadata re-requested (the 0-0 request) and not yet retransmitted
    nEof      |-> 0,
    nMeta     |-> 0,
    sprog     |-> 0,                        \* highest offset transmitted in the first pass
    round     |-> [open |-> FALSE, reqs |-> {}, marker |-> FALSE],
    promptNak |-> FALSE,
    basis     |-> {},                       \* units held when the pending NAK lists can at the earliest have been built
    markerOk  |-> TRUE,                     \* metadata was missing when the pending NAK list was built
    finSent   |-> FALSE,
    \* per retransmitted PDU kind: n transmissions since the count was definitely reset, nr since the
    \* owner was last resumed (-1: not resumed since), time since the last one, all gaps >= timeout
    tx        |-> [k \in TxKinds |-> [n |-> 0, nr |-> -1, since |-> 0, gapok |-> TRUE, mark |-> 0, sameInstant |-> FALSE]],
    finR      |-> NoFin,                    \* the receiver's latest Finished indication
    succResp  |-> <<>>,                     \* filestore responses of its success indication
    finPdu    |-> NoFin ]                   \* the last Finished PDU put on the link

\* ------------------------------------------------------------ event access
\* indications of one entity, in order
IndsOf(ev, e) == SelectSeq(ev.ind, LAMBDA x : x.e = e)
HasInd(ev, e, k) == \E i \in 1 .. Len(ev.ind) : ev.ind[i].e = e /\ ev.ind[i].k = k
IndSet(ev) == {ev.ind[i] : i \in 1 .. Len(ev.ind)}
OutSet(ev) == {ev.out[i] : i \in 1 .. Len(ev.out)}

Sender(ev) == IF ev.a = "S_Send" THEN "S" ELSE IF ev.a = "R_Send" THEN "R" ELSE "-"
\* the entity a Deliver event hands its PDU to
Target(ev) == IF ev.a = "Deliver" /\ ev.res # "disabled"
              THEN (IF ev.ch = "c2r" THEN "R" ELSE "S") ELSE "-"
Delivered(ev, e, k) == Target(ev) = e /\ ev.pin.k = k /\ ev.res \in {"ok", "unexpected"}

\* pieces a NAK request <<a,b>> obliges the sender to retransmit
Pieces(a, b, C) ==
  IF a >= b THEN {}
  ELSE {<<x, Min2(Min2(x + C.seg, b), NUnits(C))>> :
           x \in {y \in a .. (b - 1) : (y - a) % C.seg = 0 /\ y < NUnits(C)}}

ReqUnits(reqs) == UNION {Units(r[1], r[2]) : r \in reqs}

\* ------------------------------------------------------------ one step
Step(o, ev, C) ==
  LET isAck == C.mode = "ack"
      isUnack == C.mode = "unack"
      N == NUnits(C)
      snd == Sender(ev)
      tgt == Target(ev)
      inds == IndSet(ev)
      outs == OutSet(ev)
      dt == IF ev.a = "Tick" THEN ev.d ELSE 0

      \* ---- user commands
      isCmd(e, c) == ev.a = (IF e = "S" THEN "S_Cmd" ELSE "R_Cmd") /\ ev.c = c /\ ev.res = "ok"
      susp2 == [e \in Ents |-> IF isCmd(e, "Suspend") THEN TRUE
                               ELSE IF isCmd(e, "Resume") THEN FALSE
                               \* a freshly spawned receive transaction is not suspended
                               ELSE IF e = "R" /\ ev.rinc # o.rinc THEN FALSE ELSE o.susp[e]]
      cancel2 == [e \in Ents |-> o.cancel[e] \/ isCmd(e, "Cancel")]
      cancelNow == \E e \in Ents : isCmd(e, "Cancel")

      \* ---- link faults
      isFault == \/ ev.a \in {"Drop", "Dup", "Corrupt"} /\ ev.res = "ok"
                 \/ ev.a = "Deliver" /\ ev.res # "disabled" /\ ev.idx > 1
                 \/ ev.a = "Tick" /\ (ev.nc2r + ev.nc2s > 0)

      \* ---- receiver incarnation
      spawned == ev.rinc # o.rinc
      held0 == IF spawned THEN {} ELSE o.held
      rxMeta0 == IF spawned THEN FALSE ELSE o.rxMeta
      rxEof0 == IF spawned THEN FALSE ELSE o.rxEof
      goodData == Delivered(ev, "R", "Data") /\ ev.res = "ok" /\ ev.pin.ok /\ ev.pin.len > 0
      held2 == IF goodData THEN held0 \cup Units(ev.pin.off, ev.pin.off + ev.pin.len) ELSE held0
      rxMeta2 == rxMeta0 \/ (Delivered(ev, "R", "Metadata") /\ ev.res = "ok")
      rxEof2 == rxEof0 \/ (Delivered(ev, "R", "EOF") /\ ev.res = "ok" /\ ev.pin.cond = "NoError")

      \* ---- life cycle
      born2 == [e \in Ents |-> o.born[e] \/ (e = "R" /\ ev.rinc > 0)]
      aliveNow == [e \in Ents |-> IF e = "S" THEN ev.salive ELSE ev.ralive]
      ended2 == [e \in Ents |-> born2[e] /\ ~aliveNow[e]]

      \* ---- indications
      finIndR == {x \in inds : x.e = "R" /\ x.k = "Finished"}
      finIndS == {x \in inds : x.e = "S" /\ x.k = "Finished"}
      succR == \E x \in finIndR : IsSucc(x, C)
      succS == \E x \in finIndS : IsSucc(x, C)
      faultInds == {x \in inds : x.k = "Fault"}
      firstDelivery == succR /\ ~o.delivered
      delivered2 == o.delivered \/ succR
      excused2 == [e \in Ents |-> o.excused[e] \/
                      \E x \in faultInds : x.e = e /\ Handler(C, x.cond) \in {"Ignore", "Suspend"}]
      idle2 == [e \in Ents |-> IF tgt = e THEN 0
                               ELSE IF ~born2[e] \/ ended2[e] THEN 0
                               ELSE IF susp2[e] \/ o.susp[e] THEN o.idle[e]
                               ELSE Min2(o.idle[e] + dt, Bound(C) + 1)]
      repCancel2 == [e \in Ents |-> o.repCancel[e] \/
                       \E x \in inds : x.e = e /\ x.k \in {"Finished", "Abandon", "Report", "Fault"} /\ x.cond = "CancelReceived"]
      sinceCancel2 == [e \in Ents |-> IF cancel2[e] /\ ~ended2[e]
                                      THEN Min2(o.sinceCancel[e] + dt, Bound(C) + 1) ELSE o.sinceCancel[e]]

      \* ---- sender emissions
      sOut == IF snd = "S" THEN outs ELSE {}
      rOut == IF snd = "R" THEN outs ELSE {}
      sData == {p \in sOut : p.k = "Data" /\ p.len # 0}
      \* a data PDU is either a pending retransmission or the next first-pass tile
      isPend(p) == <<p.off, p.off + p.len>> \in o.pend
      isTile(p) == p.off = o.fp /\ p.len = Min2(C.seg, N - o.fp) /\ o.fp < N
      tiles == {p \in sData : ~isPend(p) /\ isTile(p)}
      fp2 == IF tiles # {} THEN o.fp + (CHOOSE p \in tiles : TRUE).len ELSE o.fp
      sprog2 == IF tiles # {} THEN Max2(o.sprog, fp2) ELSE o.sprog
      nakIn == Delivered(ev, "S", "NAK") /\ ev.res = "ok" /\ isAck
      newPieces == IF nakIn THEN UNION {Pieces(ev.pin.reqs[i][1], ev.pin.reqs[i][2], C) : i \in 1 .. Len(ev.pin.reqs)}
                   ELSE {}
      \* a sender that is no longer transferring (cancelled, finished, gone) owes no retransmission
      sOwes == ev.salive /\ ev.S.alive /\ ev.S.st \in {"Meta", "Data", "Eof"}
      pend2 == IF sOwes THEN (o.pend \ {<<p.off, p.off + p.len>> : p \in sData}) \cup newPieces ELSE {}
      pendMeta2 == sOwes /\ (IF nakIn /\ \E i \in 1 .. Len(ev.pin.reqs) : ev.pin.reqs[i] = <<0, 0>> THEN TRUE
                             ELSE o.pendMeta /\ ~(\E p \in sOut : p.k = "Metadata"))
      eofOut == {p \in sOut : p.k = "EOF"}
      eofNoErr == {p \in eofOut : p.cond = "NoError"}
      metaOut == {p \in sOut : p.k = "Metadata"}

      \* ---- receiver emissions
      nakOut == {p \in rOut : p.k = "NAK"}
      finOut == {p \in rOut : p.k = "Finished"}
      kaOut == {p \in rOut : p.k = "KeepAlive"}
      nakReqs(p) == {p.reqs[i] : i \in 1 .. Len(p.reqs)}
      missing == AllUnits(C) \ o.held
      \* NAK round: requests issued since time last advanced.  Sending is urgent, so when time
      \* advances the receiver has flushed every NAK list it built; PDUs arriving meanwhile only
      \* shrink what is missing.
      roundAfterEmit ==
        IF nakOut # {} THEN
           LET p == CHOOSE q \in nakOut : TRUE
               rs == nakReqs(p)
           IN [open |-> TRUE,
               reqs |-> (IF o.round.open THEN o.round.reqs ELSE {}) \cup {r \in rs : r[1] < r[2]},
               marker |-> (o.round.open /\ o.round.marker) \/ (<<0, 0>> \in rs)]
        ELSE o.round
      roundClosed == ev.a = "Tick" \/ spawned \/ ~ev.ralive
      round2 == IF roundClosed THEN [open |-> FALSE, reqs |-> {}, marker |-> FALSE] ELSE roundAfterEmit
      \* the round is judged when time starts to pass with nothing having reached the receiver
      judgeRound == /\ ev.a = "Tick" /\ o.round.open /\ o.rxEof /\ ev.ralive
                    /\ ~o.susp["R"] /\ ~o.excused["R"] /\ ~o.cancel["R"] /\ ~o.everFault["R"]
                    /\ C.isfile /\ ~o.delivered

      \* ---- retransmission accounting (C17)
      emitK(k) == IF k = "eof" THEN eofOut # {} ELSE IF k = "fin" THEN finOut # {} ELSE nakOut # {}
      toK(k) == IF k = "nak" THEN ToNak(C) ELSE ToAck(C)
      ownerK(k) == IF k = "eof" THEN "S" ELSE "R"
      \* progress that resets the count
      \* progress that resets the count
      \* (a user's cancel is not progress of the peer: the EOF(cancel) it triggers goes out at once, restarts the
      \*  period, and the expirations counted so far stay counted)
      resetK(k) == IF k = "eof" THEN (Delivered(ev, "S", "ACK") /\ ev.pin.of = "EOF")
                                      \/ (\E x \in faultInds : x.e = "S")
                   ELSE IF k = "fin" THEN spawned \/ isCmd("R", "Cancel") \/ (\E x \in faultInds : x.e = "R")
                                          \/ (finOut # {} /\ o.finPdu.set /\ (CHOOSE q \in finOut : TRUE).cond # o.finPdu.cond)
                   ELSE spawned
      \* a resume may or may not reset the count (the receiver resets, the sender restarts)
      resumeK(k) == isCmd(ownerK(k), "Resume")
      tx2 == [k \in TxKinds |->
                LET x == o.tx[k]
                    frozen == o.susp[ownerK(k)]
                    adv == IF frozen THEN 0 ELSE dt
                    fresh == [n |-> 0, nr |-> -1, since |-> 0, gapok |-> TRUE, mark |-> x.mark, sameInstant |-> FALSE]
                    y == IF resetK(k) THEN fresh
                         ELSE IF resumeK(k) THEN [x EXCEPT !.nr = 0, !.since = 0] ELSE x
                IN IF emitK(k) THEN
                        \* NAK: new data since the previous round resets the count
                        IF k = "nak" /\ Cardinality(o.held) # y.mark
                           THEN [n |-> 1, nr |-> -1, since |-> 0, gapok |-> TRUE, mark |-> Cardinality(o.held), sameInstant |-> TRUE]
                        ELSE IF y.n > 0 /\ y.since = 0 /\ ~resetK(k) /\ ~resumeK(k) /\ dt = 0 /\ x.sameInstant THEN y
                        \* the original, or a retransmission a full period after the previous emission: counted
                        ELSE IF y.n = 0 \/ y.nr = 0 \/ y.since >= toK(k)
                           THEN [n |-> y.n + 1, nr |-> IF y.nr >= 0 THEN y.nr + 1 ELSE -1, since |-> 0,
                                 gapok |-> y.gapok, mark |-> y.mark, sameInstant |-> TRUE]
                        \* an emission before the period is over answers an event (a repeated EOF, a prompt, the user's
                        \* cancel): every emission restarts the period, but it is none of the retransmissions the limit counts
                        ELSE [y EXCEPT !.since = 0, !.sameInstant = TRUE]
                   ELSE [y EXCEPT !.since = Min2(y.since + adv, Bound(C) + 1),
                                  !.sameInstant = y.sameInstant /\ dt = 0]]

      \* the success indication, else the latest Finished indication of the receiver
      finR2 == IF firstDelivery THEN FinOf(CHOOSE x \in finIndR : IsSucc(x, C))
               ELSE IF finIndR # {} THEN FinOf(CHOOSE x \in finIndR : TRUE) ELSE o.finR
      succResp2 == IF firstDelivery THEN (CHOOSE x \in finIndR : IsSucc(x, C)).resp ELSE o.succResp
      finPdu2 == IF finOut # {} THEN FinOf(CHOOSE p \in finOut : TRUE) ELSE o.finPdu

      \* =========================================================== violations
      v01 == {"C01:DeliveredIsSource" : x \in {y \in finIndR \cup finIndS : C.isfile /\ IsSucc(y, C) /\ ev.dest.st # "eq"}}

      \* (a receive transaction that was never started counts as ended once the sender has: with fewer faults than the
      \*  limit some PDU gets through, and every PDU towards the receiver starts one - lib.rs Vacant entry)
      bothEnded == ended2["S"] /\ (ended2["R"] \/ ~born2["R"])
      justEnded == bothEnded /\ ~(o.ended["S"] /\ (o.ended["R"] \/ ~o.born["R"]))
      \* a direction going dark for good is beyond any bounded number of faults
      nfaults2 == o.nfaults + (IF isFault THEN 1 ELSE 0) + (IF ev.a = "Blackout" THEN C.limit ELSE 0)
      suspTime2 == Min2(o.suspTime + (IF \E e \in Ents : o.susp[e] THEN dt ELSE 0), Bound(C) + 1)
      hypBounded == /\ isAck /\ nfaults2 < C.limit /\ o.ncancel = 0 /\ ~cancelNow /\ ~o.adversary
                    /\ suspTime2 < Min2(ToAck(C), Min2(ToNak(C), ToInact(C)))
                    /\ \A e \in Ents : ~excused2[e]
      succ2 == [e \in Ents |-> o.succ[e] \/ (IF e = "R" THEN succR ELSE succS)]
      v02 == IF justEnded /\ hypBounded /\
                ~(succ2["R"] /\ succ2["S"] /\ (C.isfile => ev.dest.st = "eq"))
             THEN {"C02:RecoversOK"} ELSE {}

      v03 == {"C03:IdleBound" : e \in {x \in Ents : born2[x] /\ ~ended2[x] /\ ~excused2[x] /\ ~susp2[x]
                                                   /\ idle2[x] > Bound(C)}}
             \cup
             \* (reads the loop's sleep argument) a timeout handler must not leave the sleep at zero
             (IF ev.a = "S_Timeout" /\ ev.res = "ok" /\ ev.salive /\ ev.S.until = 0 /\ ~ev.S.can THEN {"C03:NoSpin"} ELSE {})
             \cup
             (IF ev.a = "R_Timeout" /\ ev.res = "ok" /\ ev.ralive /\ ev.R.until = 0 /\ ~ev.R.can THEN {"C03:NoSpin"} ELSE {})

      stillOpen == o.delivered /\ o.rinc = ev.rinc
      v04 == (IF stillOpen /\ C.isfile /\ ev.dest # o.destAt THEN {"C04:FileChanged"} ELSE {})
             \cup (IF stillOpen /\ ev.tree # o.tree THEN {"C04:RequestsRedone"} ELSE {})
             \cup {"C04:IntegrityFaultAfterDelivery" :
                     x \in {y \in inds : stillOpen /\ y.k \in {"Fault", "Finished", "Abandon"} /\ y.cond \in IntegrityConds}}
             \cup (IF succS /\ ~delivered2 THEN {"C04:SenderSuccessWithoutDelivery"} ELSE {})

      v07 == {"C07:Header" : p \in {q \in sOut : ~q.hdr}}
             \cup {"C07:DataContent" : p \in {q \in sData : ~q.ok \/ ~q.fits \/ ~q.inside}}
             \cup {"C07:UnsolicitedData" : p \in {q \in sData : ~isPend(q) /\ ~isTile(q)}}
             \cup {"C07:MetadataWrong" : p \in {q \in metaOut : ~q.ok}}
             \cup {"C07:EofWrong" : p \in {q \in eofNoErr : ~q.ok}}
             \cup {"C07:EofBeforeData" : p \in {q \in eofNoErr : C.isfile /\ fp2 # N}}
             \* sending is urgent (A2): when time starts to pass, every requested piece has been retransmitted
             \* (a script that lets time pass while the sender still has something to send is outside A2: not judged)
             \cup (IF ev.a = "Tick" /\ sOwes /\ ~o.susp["S"] /\ ~o.excused["S"] /\ ev.S.txs = "Active" /\ ~ev.S.can
                      /\ (o.pend # {} \/ o.pendMeta)
                   THEN {"C07:NakNotAnswered"} ELSE {})

      badReq(p, r) == \/ ~(r[1] < r[2] \/ (r = <<0, 0>> /\ o.markerOk))
                      \/ (r # <<0, 0>> /\ ~(p.s <= r[1] /\ r[2] <= p.e))
                      \/ (o.rxEof /\ r[2] > N)
      v08 == {"C08:NakWellFormed" : p \in {q \in nakOut : ~q.fits \/ ~q.hdr \/ \E r \in nakReqs(q) : badReq(q, r)}}
             \cup {"C08:DeferredQuiet" : p \in {q \in nakOut : isAck /\ C.nakproc = "def" /\ ~o.rxEof /\ ~o.promptNak}}
             \* no missing byte (nor missing metadata) is left out ...
             \cup (IF judgeRound /\ ~(missing \subseteq ReqUnits(o.round.reqs) /\ (~o.rxMeta => o.round.marker))
                   THEN {"C08:NakCoversMissing"} ELSE {})
             \* ... and nothing is asked for that was already held when the list could have been built
             \cup {"C08:NakAsksForHeld" : p \in {q \in nakOut : o.rxEof /\ ReqUnits({x \in nakReqs(q) : x[1] < x[2]}) \cap o.basis # {}}}

      \* the user's cancel takes effect at the receiver when it is issued there, or when the sender's EOF(cancel) gets there
      cancelAtR2 == IF spawned THEN FALSE
                    ELSE o.cancelAtR \/ isCmd("R", "Cancel")
                         \/ (o.cancel["S"] /\ Delivered(ev, "R", "EOF") /\ ev.res = "ok" /\ ev.pin.cond = "CancelReceived")
      v10 == (IF firstDelivery /\ o.cancelAtR /\ ~spawned THEN {"C10:DeliveredAfterCancel"} ELSE {})
             \cup
             (IF C.isfile /\ (o.ncancel > 0 \/ cancelNow) /\ ev.dest.st # "absent" /\ ~delivered2 THEN {"C10:NoPartialFile"} ELSE {})
             \cup {"C10:CancelEnds" : e \in {x \in Ents : cancel2[x] /\ ~ended2[x] /\ sinceCancel2[x] > Bound(C)}}
             \* (a transfer that completed before the cancel took effect at the peer reports success)
             \* (no return path: a receiver cancelling an unacknowledged transfer without closure cannot tell the sender)
             \cup (IF justEnded /\ o.cancelEff /\ ~delivered2 /\ nfaults2 = 0 /\ ~o.adversary /\ o.ncancel = 1
                      /\ ~(isUnack /\ ~C.closure /\ o.cancel["R"])
                      /\ \E e \in Ents : ~repCancel2[e]
                   THEN {"C10:CancelReported"} ELSE {})

      \* whatever the link did before: an entity that RECEIVED the peer's cancel (EOF(cancel) at the receiver before it had
      \* delivered, Finished(cancel) at the sender) reports the cancel condition by the time it ends
      eofCancelRx2 == IF spawned THEN FALSE
                      ELSE o.eofCancelRx \/ (o.cancel["S"] /\ ~o.delivered /\ ev.ralive /\ ~o.everFault["R"] /\ ~o.cancel["R"]
                                              /\ Delivered(ev, "R", "EOF") /\ ev.res = "ok" /\ ev.pin.cond = "CancelReceived")
      finCancelRx2 == o.finCancelRx \/ (o.cancel["R"] /\ ev.salive /\ ~o.everFault["S"] /\ ~o.cancel["S"]
                                          /\ Delivered(ev, "S", "Finished") /\ ev.res = "ok" /\ ev.pin.cond = "CancelReceived")
      v10b == (IF ended2["R"] /\ ~o.ended["R"] /\ o.eofCancelRx /\ ~spawned /\ ~repCancel2["R"]
               THEN {"C10:CancelReported"} ELSE {})
              \cup (IF ended2["S"] /\ ~o.ended["S"] /\ finCancelRx2 /\ ~repCancel2["S"]
                    THEN {"C10:CancelReported"} ELSE {})

      treeChanged == ev.tree # o.tree
      v13 == (IF treeChanged /\ ~firstDelivery /\ ~spawned /\ o.rinc = ev.rinc THEN {"C13:RequestsOutsideDelivery"} ELSE {})
             \cup {"C13:ResponsesDiffer" : p \in {q \in finOut : q.cond = "NoError" /\ o.delivered /\ q.resp # o.succResp}}
             \cup {"C13:ResponsesDiffer" : x \in {y \in finIndS : Delivered(ev, "S", "Finished") /\ y.resp # ev.pin.resp}}
             \* the successful delivery runs every request of the Put: one response per request
             \cup (IF firstDelivery /\ Len(succResp2) # Len(C.fsreqs) THEN {"C13:RequestsNotRun"} ELSE {})

      \* one original plus one retransmission per earlier expiration; after a resume that reset the
      \* count there is no new original, only the retransmissions
      countOk(t) == t.n = C.limit \/ (t.nr >= 0 /\ t.nr \in {C.limit - 1, C.limit})
      faultOk(x) ==
        LET k == IF x.e = "S" THEN "eof" ELSE "fin" IN
        CASE x.cond = "PositiveLimitReached" -> countOk(o.tx[k]) /\ o.tx[k].gapok /\ o.tx[k].since >= ToAck(C)
          \* (... and no file data arrived since the last NAK went out: progress resets the count)
          [] x.cond = "NakLimitReached" -> countOk(o.tx["nak"]) /\ o.tx["nak"].gapok /\ o.tx["nak"].since >= ToNak(C)
                                           /\ Cardinality(o.held) = o.tx["nak"].mark
          [] x.cond = "InactivityDetected" -> o.idle[x.e] >= C.limit * ToInact(C)
          [] OTHER -> TRUE
      handlerOk(x) ==
        LET act == Handler(C, x.cond)
            mine == {y \in inds : y.e = x.e}
            kinds == {y.k : y \in mine}
        IN CASE act = "Ignore" -> kinds \cap {"Abandon", "Suspended"} = {}
             [] act = "Suspend" -> "Suspended" \in kinds /\ "Abandon" \notin kinds
             [] act = "Abandon" -> "Abandon" \in kinds /\ (IF x.e = "S" THEN ~ev.salive ELSE ~ev.ralive)
             [] OTHER -> kinds \cap {"Abandon", "Suspended"} = {}
      \* (once a fault has been ignored / has suspended the entity its counters stay saturated; only the
      \* first declaration is held to the exact count)
      \* a cancelled send transaction that hits a limit is abandoned without a Fault indication
      \* (send.rs:288-299): the same exactness is demanded of that declaration
      limitAbandon == {x \in inds : x.k = "Abandon" /\ x.e = "S" /\ ev.a = "S_Timeout" /\ isAck
                                      /\ (o.cancel["S"] \/ o.everFault["S"]) /\ ~(\E y \in faultInds : y.e = "S")}
      \* (after a limit fault every further expiry ends the transaction; the inactivity count of a cancelled sender
      \*  runs from the cancel, send.rs:674, or from the last PDU of the peer)
      abandonOk(x) ==
        \/ o.everFault["S"]
        \/ ((countOk(o.tx["eof"]) \/ o.tx["eof"].n >= C.limit) /\ o.tx["eof"].since >= ToAck(C))
        \/ o.idle["S"] >= C.limit * ToInact(C)
        \/ o.sinceCancel["S"] >= C.limit * ToInact(C)
      v17 == {"C17:FaultExact" : x \in {y \in faultInds : ~o.adversary /\ ~o.excused[y.e] /\ ~faultOk(y)}}
             \cup {"C17:FaultExact" : x \in {y \in limitAbandon : ~o.adversary /\ ~o.excused[y.e] /\ ~abandonOk(y)}}
             \cup {"C17:HandlerAsConfigured" : x \in {y \in faultInds : ~handlerOk(y)}}

      v18 == {"C18:OneWay" : p \in {q \in rOut : isUnack /\ q.k \in {"ACK", "NAK", "KeepAlive"}}}
             \cup (IF isUnack /\ metaOut # {} /\ o.nMeta >= 1 THEN {"C18:OneWay"} ELSE {})
             \cup (IF isUnack /\ eofNoErr # {} /\ o.nEof >= 1 THEN {"C18:OneWay"} ELSE {})
             \cup (IF isUnack /\ ~C.closure /\ eofOut # {} /\ ev.salive /\ o.ncancel = 0 /\ ~cancelNow THEN {"C18:EndsOnEof"} ELSE {})
             \cup (IF isUnack /\ ~C.closure /\ Delivered(ev, "R", "EOF") /\ ev.res = "ok" /\ ev.ralive THEN {"C18:EndsOnEof"} ELSE {})
             \cup (IF isUnack /\ C.closure /\ ev.a = "Tick" /\ o.rxEof /\ ~o.finSent /\ ev.ralive /\ ~o.susp["R"] THEN {"C18:ClosureFinished"} ELSE {})
             \cup {"C18:ClosureTruthful" : p \in {q \in finOut : isUnack /\ o.finR.set /\ ~o.cancel["R"] /\
                                                   <<q.cond, q.deliv, q.fstat>> # <<o.finR.cond, o.finR.deliv, o.finR.fstat>>}}
             \cup (IF isUnack /\ C.closure /\ o.ncancel = 0 /\ ~cancelNow /\ ended2["S"] /\ ~o.ended["S"] /\ ~Delivered(ev, "S", "Finished")
                      /\ ~o.everFault["S"] /\ ~(\E x \in inds : x.e = "S" /\ x.k \in {"Fault", "Abandon"})
                   THEN {"C18:ClosureSenderWaits"} ELSE {})
             \cup {"C18:ClosureReported" : x \in {y \in finIndS : isUnack /\ Delivered(ev, "S", "Finished") /\
                                                   <<y.cond, y.deliv>> # <<ev.pin.cond, ev.pin.deliv>>}}
             \cup {"C18:IncompleteNotComplete" : x \in {y \in finIndR : y.deliv = "Complete" /\
                                                   ~(rxMeta2 /\ (C.isfile => held2 = AllUnits(C)))}}

      quietKinds == {"Metadata", "Data", "EOF", "NAK", "Finished"}
      v19 == {"C19:QuietWhileSuspended" : p \in {q \in outs : snd \in Ents /\ o.susp[snd] /\ susp2[snd] /\ q.k \in quietKinds}}
             \cup {"C19:NoFaultWhileSuspended" : x \in {y \in faultInds : o.susp[y.e] /\ susp2[y.e]}}
             \* "timers counting only un-suspended time": the counts and gaps of faultOk exclude suspended time, so a
             \* limit fault of a once-suspended entity that they do not justify was helped by the suspension
             \cup {"C19:TimersFrozen" : x \in {y \in faultInds : o.everSusp[y.e] /\ ~o.adversary /\ ~o.excused[y.e] /\ ~faultOk(y)}}

      progInd == {x \in inds : x.k \in {"Fault", "Resumed", "Abandon"}}
      v20 == {"C20:ReceiverProgress" : p \in {q \in kaOut : q.progress # Cardinality(o.held)}}
             \cup {"C20:ReceiverProgress" : x \in {y \in progInd : y.e = "R" /\ C.isfile /\ y.progress # Cardinality(held2)}}
             \cup {"C20:SenderProgress" : x \in {y \in progInd : y.e = "S" /\ C.isfile /\ y.progress # sprog2}}

      \* signatures of recorded findings (known_findings.json): a violation carries a signature
      \* iff it has the specific shape of a recorded finding
      incompleteUnack == isUnack /\ ~(rxMeta2 /\ (C.isfile => held2 = AllUnits(C)))
      \* the finding has happened in this run: the receiver reported a complete delivery with data or metadata missing
      kf2 == o.kf \/ (incompleteUnack /\ \E x \in finIndR : x.deliv = "Complete")
      \* its consequences: that "delivery" ended the transaction; the PDUs still to come respawn a receive transaction which
      \* delivers (again) and runs the filestore requests - judged against the bogus first delivery
      Consequences == {"C13:RequestsOutsideDelivery", "C13:ResponsesDiffer", "C04:FileChanged", "C04:RequestsRedone"}
      \* (a "delivery" reported without the metadata cannot have run the requests the metadata carries)
      sigNotRun == isUnack /\ ~rxMeta2
      \* (a holed FILE passes for the source only when the lost bytes are checksum-neutral - Receiver!CkMatches; a file
      \*  delivered although its checksum does not match is NOT the recorded finding)
      sigOf(tag) == IF tag = "C18:IncompleteNotComplete" /\ incompleteUnack /\ finIndS = {}
                    THEN "unack-incomplete-reported-complete"
                    ELSE IF tag = "C01:DeliveredIsSource" /\ incompleteUnack /\ finIndS = {} /\ PCkNeutral(C, held2)
                    THEN "unack-incomplete-reported-complete"
                    ELSE IF tag \in Consequences /\ isUnack /\ o.kf /\ o.rinc > 1 THEN "unack-incomplete-reported-complete"
                    ELSE IF tag = "C13:RequestsNotRun" /\ sigNotRun THEN "unack-incomplete-reported-complete"
                    ELSE ""

      o2 == [ susp |-> susp2, excused |-> excused2, cancel |-> cancel2,
              cancelEff |-> o.cancelEff \/ (cancelNow /\ ~o.delivered),
              sinceCancel |-> sinceCancel2, repCancel |-> repCancel2,
              ncancel |-> o.ncancel + (IF cancelNow THEN 1 ELSE 0),
              nsusp |-> o.nsusp + (IF \E e \in Ents : isCmd(e, "Suspend") THEN 1 ELSE 0),
              suspTime |-> suspTime2,
              nfaults |-> nfaults2,
              adversary |-> o.adversary \/ ev.a = "Inject",
              held |-> held2, rxMeta |-> rxMeta2, rxEof |-> rxEof2, rinc |-> ev.rinc,
              born |-> born2, ended |-> ended2,
              everFault |-> [e \in Ents |-> o.everFault[e] \/ \E x \in inds : x.e = e /\ x.k \in {"Fault", "Abandon"}],
              succ |-> succ2, delivered |-> delivered2,
              destAt |-> IF firstDelivery THEN ev.dest ELSE o.destAt,
              tree |-> ev.tree,
              idle |-> idle2, fp |-> fp2, pend |-> pend2, pendMeta |-> pendMeta2, kf |-> kf2, eofCancelRx |-> eofCancelRx2, finCancelRx |-> finCancelRx2,
              everSusp |-> [e \in Ents |-> IF e = "R" /\ spawned THEN FALSE ELSE o.everSusp[e] \/ isCmd(e, "Suspend")], cancelAtR |-> cancelAtR2,
              nEof |-> o.nEof + (IF eofNoErr # {} THEN 1 ELSE 0),
              nMeta |-> o.nMeta + (IF metaOut # {} THEN 1 ELSE 0),
              sprog |-> sprog2, round |-> round2,
              promptNak |-> (o.promptNak /\ ~spawned) \/ (Delivered(ev, "R", "Prompt") /\ ev.pin.opt = "Nak"),
              basis |-> IF spawned THEN {}
                        ELSE IF ev.a = "Tick" \/ (Delivered(ev, "R", "EOF") /\ ~rxEof0) THEN held2 ELSE o.basis,
              markerOk |-> IF spawned THEN TRUE ELSE IF nakOut # {} THEN ~rxMeta2 ELSE o.markerOk \/ ~rxMeta2,
              finSent |-> (o.finSent /\ ~spawned) \/ finOut # {},
              tx |-> tx2, finR |-> finR2, succResp |-> succResp2, finPdu |-> finPdu2 ]
  IN [o |-> o2,
      v |-> {<<tag, sigOf(tag)>> : tag \in v01 \cup v02 \cup v03 \cup v04 \cup v07 \cup v08 \cup v10 \cup v10b \cup v13 \cup v17 \cup v18 \cup v19 \cup v20}]

=============================================================================
