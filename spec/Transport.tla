------------------------------ MODULE Transport ------------------------------
(***************************************************************************)
(* The receive path of the UDP transport (cfdp-daemon/src/transport.rs):   *)
(* one receive buffer is reused for every datagram.  Property C16: a       *)
(* datagram is decoded from its own bytes only.                            *)
(*                                                                         *)
(* A buffer cell is tagged <<d, i>>: byte i of datagram d (<<0,0>>: never   *)
(* written).  Receiving the first n bytes of datagram d overwrites cells   *)
(* 1..n; the decoder then reads the cells the PDU announces (its full      *)
(* length Lens[d]) from a WINDOW of the buffer:                            *)
(*    Window = n               the design the property demands             *)
(*    Window = size of buffer  (WholeBuffer = TRUE) decode-the-whole-buffer *)
(*                             design, kept to show that NoStaleBytes is   *)
(*                             not vacuous: TLC refutes it at once.        *)
(***************************************************************************)
EXTENDS Integers, Sequences, TLC

CONSTANTS Lens,          \* Lens[d]: encoded length of corpus datagram d
          WholeBuffer,   \* BOOLEAN: which decoder design
          MaxDepth       \* number of receives per behaviour

D == DOMAIN Lens
Cap == 1 + (CHOOSE m \in {Lens[d] : d \in D} : \A e \in D : Lens[e] <= m)

VARIABLES buf,     \* [1..Cap -> <<d, i>>]
          depth,
          last,    \* [d, n, outcome, stale] of the last receive (hidden by View)
          hist     \* the receives so far, <<d, n>> each (hidden by View)

vars == <<buf, depth, last, hist>>
View == <<buf, depth>>

Init == /\ buf = [i \in 1 .. Cap |-> <<0, 0>>]
        /\ depth = 0
        /\ last = [d |-> 0, n |-> 0, outcome |-> "none", stale |-> FALSE]
        /\ hist = <<>>

\* what the decoder of datagram d sees at position i, given n own bytes and the window
Window(n) == IF WholeBuffer THEN Cap ELSE n

Recv(d, n) ==
  LET nb == [i \in 1 .. Cap |-> IF i <= n THEN <<d, i>> ELSE buf[i]]
      w == Window(n)
      \* the decoder needs cells 1..Lens[d]; it fails if the window is shorter
      accepted == Lens[d] <= w /\ (\A i \in 1 .. Lens[d] : nb[i] # <<0, 0>>)
      stale == accepted /\ \E i \in 1 .. Lens[d] : nb[i][1] # d
  IN  /\ depth < MaxDepth
      /\ buf' = nb
      /\ depth' = depth + 1
      /\ last' = [d |-> d, n |-> n, outcome |-> IF accepted THEN "accept" ELSE "reject", stale |-> stale]
      /\ hist' = Append(hist, <<d, n>>)

\* the first datagram of a behaviour is complete, later ones may be truncated at any length
Next == \E d \in D : \E n \in 0 .. Lens[d] : (depth = 0 => n = Lens[d]) /\ Recv(d, n)

Spec == Init /\ [][Next]_vars

\* C16
NoStaleBytes == ~last.stale
TruncatedRejected == (last.d # 0 /\ last.n < Lens[last.d]) => last.outcome = "reject"
CompleteAccepted == (last.d # 0 /\ last.n = Lens[last.d]) => last.outcome = "accept"

EmitEdge == PrintT(<<"EDGE", hist', last'.outcome>>)
=============================================================================
