------------------------------ MODULE Filestore ------------------------------
(***************************************************************************)
(* Filestore requests (cfdp-core/src/filestore.rs:131-226, C13) over a     *)
(* flat namespace.                                                         *)
(*                                                                         *)
(* A filestore state `fs` is a function from the names that exist to       *)
(* <<kind, length>>, kind "f" (file) or "d" (directory); the same shape    *)
(* as the directory listing the projector records (a JSON object).         *)
(* A request is [a |-> action, f1 |-> name, f2 |-> name].                  *)
(* Apply returns the successor state and the status octet                  *)
(* (action code << 4 | status) exactly as FileStoreStatus::as_u8 does.     *)
(* The status codes follow the code base and its own tests (notably: Deny  *)
(* of a missing name is NotAllowed).                                       *)
(***************************************************************************)
EXTENDS Integers, Sequences, FiniteSets

ActionCode(a) ==
  CASE a = "CreateFile" -> 0 [] a = "DeleteFile" -> 1 [] a = "RenameFile" -> 2
    [] a = "AppendFile" -> 3 [] a = "ReplaceFile" -> 4 [] a = "CreateDirectory" -> 5
    [] a = "RemoveDirectory" -> 6 [] a = "DenyFile" -> 7 [] OTHER -> 8
Actions == {"CreateFile", "DeleteFile", "RenameFile", "AppendFile", "ReplaceFile",
            "CreateDirectory", "RemoveDirectory", "DenyFile", "DenyDirectory"}

St(a, code) == ActionCode(a) * 16 + code
NotPerformed(a) == St(a, 15)
IsSuccess(status) == status % 16 = 0

\* one level of nesting: the directory a name lives in ("" = the root itself)
FsParent(n) == IF n = "d1/x" THEN "d1" ELSE IF n = "d2/y" THEN "d2" ELSE ""
FsChildren(fs, d) == {m \in DOMAIN fs : FsParent(m) = d}

FsKind(fs, n) == IF n \in DOMAIN fs THEN fs[n][1] ELSE "a"
FsIsFile(fs, n) == FsKind(fs, n) = "f"
FsIsDir(fs, n) == FsKind(fs, n) = "d"
FsExists(fs, n) == n \in DOMAIN fs
FsLen(fs, n) == fs[n][2]
FsPut(fs, n, v) == [m \in (DOMAIN fs) \cup {n} |-> IF m = n THEN v ELSE fs[m]]
FsDel(fs, n) == [m \in (DOMAIN fs) \ {n} |-> fs[m]]
\* remove_dir_all: the directory and everything in it
FsDelDir(fs, d) == [m \in (DOMAIN fs) \ ({d} \cup FsChildren(fs, d)) |-> fs[m]]
\* a new entry needs an existing directory to live in
FsParentOk(fs, n) == FsParent(n) = "" \/ (FsParent(n) \in DOMAIN fs /\ fs[FsParent(n)][1] = "d")

Apply(fs, rq) ==
  LET a == rq.a
      p == rq.f1
      q == rq.f2
      same(code) == [fs |-> fs, st |-> St(a, code)]
  IN CASE a = "CreateFile" ->
            IF ~FsExists(fs, p) /\ FsParentOk(fs, p) THEN [fs |-> FsPut(fs, p, <<"f", 0>>), st |-> St(a, 0)] ELSE same(1)
       [] a = "DeleteFile" ->
            IF FsIsFile(fs, p) THEN [fs |-> FsDel(fs, p), st |-> St(a, 0)] ELSE same(1)
       [] a = "RenameFile" ->
            IF ~FsIsFile(fs, p) THEN same(1)
            ELSE IF FsIsFile(fs, q) THEN same(2)
            ELSE IF FsExists(fs, q) \/ ~FsParentOk(fs, q) THEN same(3)   \* a directory is in the way / nowhere to put it
            ELSE [fs |-> FsPut(FsDel(fs, p), q, fs[p]), st |-> St(a, 0)]
       [] a = "AppendFile" ->
            IF ~FsIsFile(fs, p) THEN same(1)
            ELSE IF ~FsIsFile(fs, q) THEN same(2)
            ELSE [fs |-> FsPut(fs, p, <<"f", FsLen(fs, p) + FsLen(fs, q)>>), st |-> St(a, 0)]
       [] a = "ReplaceFile" ->
            IF ~FsIsFile(fs, p) THEN same(1)
            ELSE IF ~FsIsFile(fs, q) THEN same(2)
            ELSE [fs |-> FsPut(fs, p, <<"f", FsLen(fs, q)>>), st |-> St(a, 0)]
       [] a = "CreateDirectory" ->
            IF FsExists(fs, p) \/ ~FsParentOk(fs, p) THEN same(1) ELSE [fs |-> FsPut(fs, p, <<"d", 0>>), st |-> St(a, 0)]
       [] a = "RemoveDirectory" ->
            IF FsIsDir(fs, p) THEN [fs |-> FsDelDir(fs, p), st |-> St(a, 0)] ELSE same(1)
       [] a = "DenyFile" ->
            IF FsIsFile(fs, p) THEN [fs |-> FsDel(fs, p), st |-> St(a, 0)] ELSE same(2)
       [] OTHER ->
            IF FsIsDir(fs, p) THEN [fs |-> FsDelDir(fs, p), st |-> St(a, 0)] ELSE same(2)

\* in order; after the first failure the rest is not performed    recv.rs:808-836
RunRequests(fs, reqs) ==
  LET f[i \in 0 .. Len(reqs)] ==
        IF i = 0 THEN [fs |-> fs, resp |-> <<>>, failed |-> FALSE]
        ELSE LET prev == f[i - 1] IN
             IF prev.failed
             THEN [fs |-> prev.fs, resp |-> Append(prev.resp, NotPerformed(reqs[i].a)), failed |-> TRUE]
             ELSE LET r == Apply(prev.fs, reqs[i])
                  IN [fs |-> r.fs, resp |-> Append(prev.resp, r.st), failed |-> ~IsSuccess(r.st)]
  IN f[Len(reqs)]

\* C13: a failed request changes nothing
FailedChangesNothing(fs, rq) == LET r == Apply(fs, rq) IN ~IsSuccess(r.st) => r.fs = fs
=============================================================================
