------------------------------- MODULE Timer -------------------------------
(***************************************************************************)
(* The `Counter` of cfdp-daemon/src/timer.rs in discrete time (seconds).   *)
(*                                                                         *)
(*   run  - not paused                                                     *)
(*   cnt  - number of expirations counted so far (clamped at the maximum)  *)
(*   occ  - an expiration has been counted since the last restart/reset    *)
(*   el   - time since the counter's start instant.  The code never reads  *)
(*          the start instant of a paused counter before overwriting it,   *)
(*          so el is normalised to 0 while paused.                         *)
(*                                                                         *)
(* Operators transcribe the methods one to one; TO is the timeout (>= 1),  *)
(* MX the maximum count.                                                   *)
(***************************************************************************)
EXTENDS Integers

TMin(a, b) == IF a < b THEN a ELSE b
TMax(a, b) == IF a > b THEN a ELSE b

\* (type annotations for Apalache - TimerInd.tla; comments as far as TLC is concerned)
\* @typeAlias: counter = { run: Bool, cnt: Int, occ: Bool, el: Int };
Timer_typedefs == TRUE

\* @type: $counter;
CNew == [run |-> FALSE, cnt |-> 0, occ |-> FALSE, el |-> 0]

\* update(): count every full period that has elapsed         timer.rs:43-53
\* @type: ($counter, Int, Int) => $counter;
CUpdate(c, TO, MX) ==
  IF ~c.run THEN c
  ELSE LET k == c.el \div TO
       IN [run |-> TRUE, cnt |-> TMin(c.cnt + k, MX), occ |-> c.occ \/ k > 0, el |-> c.el % TO]

\* restart(): update, start now, clear `occurred`, KEEP the count   :26-31
\* @type: ($counter, Int, Int) => $counter;
CRestart(c, TO, MX) ==
  LET u == CUpdate(c, TO, MX) IN [run |-> TRUE, cnt |-> u.cnt, occ |-> FALSE, el |-> 0]

\* reset(): start now, clear `occurred`, count = 0                  :36-41
\* @type: ($counter) => $counter;
CReset(c) == [run |-> TRUE, cnt |-> 0, occ |-> FALSE, el |-> 0]

\* pause(): update, stop                                            :55-58
\* @type: ($counter, Int, Int) => $counter;
CPause(c, TO, MX) ==
  LET u == CUpdate(c, TO, MX) IN [run |-> FALSE, cnt |-> u.cnt, occ |-> u.occ, el |-> 0]

\* start() on a freshly created counter (the delayed-NAK timers)    :60-62
\* @type: $counter;
CStarted == [run |-> TRUE, cnt |-> 0, occ |-> FALSE, el |-> 0]

\* limit_reached() / timeout_occurred(): both update first          :64-72
\* @type: ($counter, Int, Int) => Bool;
CLimit(c, TO, MX) == CUpdate(c, TO, MX).cnt = MX
\* @type: ($counter, Int, Int) => Bool;
COccurred(c, TO, MX) == CUpdate(c, TO, MX).occ

\* until_timeout() of one counter (does not update)                 :74-82
\* @type: ($counter, Int) => Int;
CUntil(c, TO) == TMax(TO - c.el, 0)

\* time passes
\* @type: ($counter, Int) => $counter;
CTick(c, d) == IF c.run THEN [c EXCEPT !.el = c.el + d] ELSE c

\* "no timer": Duration::MAX
Never == -1
UMin(a, b) == IF a = Never THEN b ELSE IF b = Never THEN a ELSE TMin(a, b)
=============================================================================
