------------------------------ MODULE Segments ------------------------------
(***************************************************************************)
(* The receiver's account of which bytes of the file it holds              *)
(* (cfdp-daemon/src/segments.rs).                                          *)
(*                                                                         *)
(* Abstract state: the SET of byte positions held.  The implementation     *)
(* keeps a sorted list of disjoint, coalesced [start,end) ranges; it is    *)
(* correct iff every call returns what the operators below return on the   *)
(* set (property C09).  The module is used                                 *)
(*   - stand-alone (MC_Segments): TLC enumerates the reachable states and  *)
(*     every transition and prints them as a labelled graph which the      *)
(*     harness walks on the real `Segments` object (all paths up to a      *)
(*     depth), comparing every return value;                               *)
(*   - by Receiver.tla as the receiver's bookkeeping.                      *)
(***************************************************************************)
EXTENDS Integers, FiniteSets, Sequences, SequencesExt, TLC

\* ---------------------------------------------------------------- operators
Ival(a, b) == a .. (b - 1)                \* the half open interval [a,b)

\* number of bytes of [a,b) not yet held: the value `merge` must return
NewBytes(held, a, b) == Cardinality(Ival(a, b) \ held)

Merge(held, a, b) == held \cup Ival(a, b)

\* a file of size n is complete iff every byte of [0,n) is held
IsComplete(held, n) == Ival(0, n) \subseteq held

\* maximal runs of a set of naturals, as a sorted sequence of <<start,end>>
RunsOf(S) ==
  LET starts == {s \in S : (s - 1) \notin S \/ s = 0}
      EndOf(s) == CHOOSE e \in (s + 1) .. (s + Cardinality(S)) :
                      /\ Ival(s, e) \subseteq S
                      /\ e \notin S
      pairs == {<<s, EndOf(s)>> : s \in starts}
  IN  SetToSortSeq(pairs, LAMBDA p, q : p[1] < q[1])

\* the missing ranges of the window [a,b): maximal uncovered sub-ranges
Gaps(held, a, b) == RunsOf(Ival(a, b) \ held)

\* the canonical range list of the held set
Ranges(held) == RunsOf(held)

EndOr0(held) == IF held = {} THEN 0 ELSE CHOOSE m \in held : \A x \in held : x <= m
\* `end_or_0` is one past the last held byte
EndOfLast(held) == IF held = {} THEN 0 ELSE EndOr0(held) + 1

=============================================================================
