-------------------------------- MODULE Paths --------------------------------
(***************************************************************************)
(* Mapping of a requested name to a native path (property C12):            *)
(* cfdp-core/src/filestore.rs:26-55 (normalize_path) and :242-251          *)
(* (get_native_path).                                                      *)
(*                                                                         *)
(* A requested name is a START followed by components:                     *)
(*   start  "rel"   relative name                                          *)
(*          "abs"   leading separator(s)                                   *)
(*          "root"  the name begins with the filestore root path itself    *)
(*          "sib"   the name begins with a sibling of the root whose name   *)
(*                  extends the root's (root + "x")                        *)
(*   component  a name ("a", "b"), "cur" ("."), "par" (".."), "nil" (empty  *)
(*              component: a repeated or trailing separator)               *)
(* Resolution keeps a stack of names BELOW the root: a name pushes, "par"  *)
(* pops and is a no-op on the empty stack, "cur"/"nil" do nothing; the     *)
(* native path is root / stack.  A root prefix is stripped first; a        *)
(* sibling prefix is just a path outside the root, i.e. an absolute name   *)
(* whose components (the sibling's own path) are resolved below the root.  *)
(* Contained: the result is the root followed by names only - whatever the *)
(* components are, it cannot denote anything outside the root.             *)
(***************************************************************************)
EXTENDS Integers, Sequences, TLC

Names == {"a", "b"}
AllNames == Names \cup {"s"}          \* "s": a component of the sibling's path
Comps == Names \cup {"cur", "par", "nil"}
Starts == {"rel", "abs", "root", "sib"}

CONSTANTS L,                \* number of components
          SibDepth          \* number of components of the sibling's own path

VARIABLES start, stack, n, hist
vars == <<start, stack, n, hist>>
View == <<start, stack, n>>

Init == /\ start \in Starts
        \* the components of the sibling's path are ordinary names below the root
        /\ stack = IF start = "sib" THEN [i \in 1 .. SibDepth |-> "s"] ELSE <<>>
        /\ n = 0
        /\ hist = <<>>

Resolve1(st, c) ==
  IF c \in Names THEN Append(st, c)
  ELSE IF c = "par" THEN (IF st = <<>> THEN st ELSE SubSeq(st, 1, Len(st) - 1))
  ELSE st

Push(c) == /\ n < L
           /\ stack' = Resolve1(stack, c)
           /\ n' = n + 1
           /\ hist' = Append(hist, c)
           /\ UNCHANGED start

Next == \E c \in Comps : Push(c)
Spec == Init /\ [][Next]_vars

\* C12: the stack holds names only, so root/stack lies inside the root
Contained == \A i \in 1 .. Len(stack) : stack[i] \in AllNames
DepthBound == Len(stack) <= n + SibDepth

EmitEdge == PrintT(<<"EDGE", start, stack, hist'[Len(hist')], stack'>>)
=============================================================================
