-------------------------------- MODULE Snap --------------------------------
(* Recorded snapshots of the real transaction objects (harness/src/proj.rs) as  *)
(* records of the model (Sender.tla / Receiver.tla); shared by the trace        *)
(* specification (CfdpTrace.tla) and the drift-directed continuation            *)
(* (Contin.tla).                                                                *)
EXTENDS Cfdp0

\* ------------------------------------------------------------ snapshots -> model records
Cnt(j) == [run |-> j.run, cnt |-> j.cnt, occ |-> j.occ, el |-> j.el]

SOfSnap(j) ==
  IF ~j.alive THEN SDead
  ELSE [ alive |-> TRUE, st |-> j.st, txs |-> j.txs, status |-> j.status, cond |-> j.cond,
         deliv |-> j.deliv, fstat |-> j.fstat, naks |-> j.naks, progress |-> j.progress, rfs |-> j.rfs,
         eof |-> [set |-> j.eof.set, cond |-> j.eof.cond, loc |-> j.eof.loc, flag |-> j.eof.flag,
                  size |-> j.eof.size, ckok |-> j.eof.ckok],
         acked |-> j.acked, ack |-> j.ack, ackcond |-> j.ackcond, ackstatus |-> j.ackstatus, prompt |-> j.prompt,
         eofInd |-> j.eofInd, cursor |-> j.cursor, tAck |-> Cnt(j.tAck), tInact |-> Cnt(j.tInact) ]

ROfSnap(j) ==
  IF ~j.alive THEN RDead
  ELSE [ alive |-> TRUE, st |-> j.st, txs |-> j.txs, status |-> j.status, cond |-> j.cond,
         deliv |-> j.deliv, fstat |-> j.fstat, resp |-> j.resp, meta |-> j.meta, closure |-> j.closure,
         segs |-> j.segs, rsize |-> j.rsize, eofrx |-> j.eofrx, fsize |-> j.fsize,
         ckset |-> j.ckset, ckok |-> j.ckok, ack |-> j.ack, ackcond |-> j.ackcond, ackstatus |-> j.ackstatus,
         fopen |-> j.fopen,
         fin |-> [set |-> j.fin.set, cond |-> j.fin.cond, deliv |-> j.fin.deliv, fstat |-> j.fin.fstat,
                  resp |-> j.fin.resp, loc |-> j.fin.loc, flag |-> j.fin.flag],
         prompt |-> j.prompt, naks |-> j.naks, nakMark |-> j.nakMark,
         delayed |-> [i \in 1 .. Len(j.delayed) |-> [c |-> Cnt(j.delayed[i].c), a |-> j.delayed[i].a, b |-> j.delayed[i].b]],
         tAck |-> Cnt(j.tAck), tInact |-> Cnt(j.tInact), tNak |-> Cnt(j.tNak) ]

Strip(p) == [f \in (DOMAIN p) \ {"bytes"} |-> p[f]]
StripAll(q) == [i \in 1 .. Len(q) |-> Strip(q[i])]
IndsOfE(q, e) == SelectSeq(q, LAMBDA x : x.e = e)

=============================================================================
