----------------------------- MODULE CfdpTrace -----------------------------
(***************************************************************************)
(* Trace validation, part 1: the property monitor.                         *)
(*                                                                         *)
(* Reads an ndjson trace recorded from the real code (Level T replay or    *)
(* Level D daemon run).  A trace file holds any number of runs; each run   *)
(* starts with a Reset line carrying the configuration.  Every line is     *)
(* consumed (the monitor never blocks): the observation state is advanced  *)
(* with Props!Step and every violated property is printed as               *)
(*     <<"VIOL", run id, line index within the run, tag>>                  *)
(* The verdict about the code is therefore TLC's evaluation of the same    *)
(* operators that are model-checked in Cfdp.tla.                           *)
(***************************************************************************)
EXTENDS Props, Json, IOUtils

Rec == ndJsonDeserialize(IOEnv.TRACE)

VARIABLES l,      \* next line
          r,      \* line of the current run's Reset
          o       \* observation state

vars == <<l, r, o>>

IsReset(x) == x.a = "Reset"

Init == /\ l = 1
        /\ r = 0
        /\ o = [none |-> TRUE]

Next ==
  /\ l <= Len(Rec)
  /\ l' = l + 1
  /\ IF IsReset(Rec[l])
     THEN /\ r' = l
          /\ o' = ObsInit(Rec[l].cfg)
     ELSE LET st == Step(o, Rec[l], Rec[r].cfg) IN
          /\ r' = r
          /\ o' = st.o
          /\ \A x \in st.v : PrintT(<<"VIOL", Rec[r].id, Rec[l].i, x[1], x[2]>>)

Spec == Init /\ [][Next]_vars

Consumed == PrintT(<<"CONSUMED", TLCGet("stats").diameter - 1, Len(Rec)>>)
=============================================================================
