----------------------------- MODULE CfdpTrace -----------------------------
(***************************************************************************)
(* Trace validation of recorded executions of the real code (Level T       *)
(* replays, Level D daemon runs) against the specification.                *)
(*                                                                         *)
(* A trace file (ndjson) holds any number of runs; each run starts with a  *)
(* Reset line carrying the configuration.  Every line is consumed - the    *)
(* validation never blocks, so one divergence does not leave the rest of   *)
(* the trace unexamined:                                                   *)
(*                                                                         *)
(*  1. MONITOR.  The observation state is advanced with Props!Step from    *)
(*     the recorded inputs/outputs and every violated property is printed: *)
(*         <<"VIOL", run id, line, tag, signature>>                        *)
(*     This is the verdict about the code: TLC evaluating, on what the     *)
(*     code really did, the operators that are model-checked in Cfdp.tla.  *)
(*                                                                         *)
(*  2. CONFORMANCE.  The model's operator for the recorded action          *)
(*     (Sender!SSend, Receiver!RPdu, ...) is applied to the model state    *)
(*     adopted from the previous line's snapshot; its successor, outputs,  *)
(*     indications and effect on the filestore are compared with the       *)
(*     recorded ones.  A mismatch is printed:                              *)
(*         <<"DRIFT", run id, line, action, set of differing parts>>       *)
(*     and the recorded state is adopted, so the comparison continues      *)
(*     from reality.  Drift is not a verdict about the code; it says that  *)
(*     the exhaustive result on the model does not transfer to this step.  *)
(***************************************************************************)
EXTENDS Cfdp0, Snap, Json, IOUtils

Rec == ndJsonDeserialize(IOEnv.TRACE)

VARIABLES l,      \* next line
          rs,     \* line of the current run's Reset
          o,      \* observation state
          m       \* model state adopted from the snapshots: [s, r, w]

vars == <<l, rs, o, m>>

IsReset(x) == x.a = "Reset"

\* the loop guards are part of what is compared
SGuards(s, C) == [until |-> SUntil(s, C), can |-> SCan(s)]
RGuards(r, C) == [until |-> RUntil(r, C), can |-> RCan(r)]
SnapGuards(j) == IF j.alive THEN [until |-> j.until, can |-> j.can] ELSE [until |-> Never, can |-> FALSE]

\* ------------------------------------------------------------ the model's prediction for one line
Unchanged(mm, res) == [s |-> mm.s, r |-> mm.r, w |-> mm.w, out |-> <<>>, ind |-> <<>>, res |-> res]

Predict(mm, e, C) ==
  LET s == mm.s
      r == mm.r
      w == mm.w
  IN CASE e.a = "S_Send" ->
            IF SCan(s) THEN LET x == SSend(s, C) IN [s |-> x.s, r |-> r, w |-> w, out |-> x.out, ind |-> x.ind, res |-> x.res]
            ELSE Unchanged(mm, "disabled")
       [] e.a = "R_Send" ->
            IF RCan(r) THEN LET x == RSend(r, w, C) IN [s |-> s, r |-> x.r, w |-> x.w, out |-> x.out, ind |-> x.ind, res |-> x.res]
            ELSE Unchanged(mm, "disabled")
       [] e.a = "S_Timeout" ->
            IF s.alive /\ SUntil(s, C) = 0
            THEN LET x == STimeout(s, C) IN [s |-> x.s, r |-> r, w |-> w, out |-> <<>>, ind |-> x.ind, res |-> x.res]
            ELSE Unchanged(mm, "disabled")
       [] e.a = "R_Timeout" ->
            IF r.alive /\ RUntil(r, C) = 0
            THEN LET x == RTimeout(r, w, C) IN [s |-> s, r |-> x.r, w |-> x.w, out |-> <<>>, ind |-> x.ind, res |-> x.res]
            ELSE Unchanged(mm, "disabled")
       [] e.a = "S_Cmd" ->
            IF s.alive THEN LET x == SCmd(s, C, e.c) IN [s |-> x.s, r |-> r, w |-> w, out |-> <<>>, ind |-> x.ind, res |-> x.res]
            ELSE Unchanged(mm, "disabled")
       [] e.a = "R_Cmd" ->
            IF r.alive THEN LET x == RCmd(r, w, C, e.c) IN [s |-> s, r |-> x.r, w |-> x.w, out |-> <<>>, ind |-> x.ind, res |-> x.res]
            ELSE Unchanged(mm, "disabled")
       [] e.a = "Tick" -> [s |-> STick(s, e.d), r |-> RTick(r, e.d), w |-> w, out |-> <<>>, ind |-> <<>>, res |-> "ok"]
       [] e.a = "Deliver" /\ e.res = "disabled" -> Unchanged(mm, "disabled")
       [] e.a = "Deliver" /\ e.pin.k = "Garbage" -> Unchanged(mm, e.res)
       [] e.a = "Deliver" /\ e.ch = "c2r" ->
            LET spawn == ~r.alive
                r0 == IF spawn THEN RInit(C) ELSE r
                x == RPdu(r0, w, C, Strip(e.pin))
            IN [s |-> s, r |-> x.r, w |-> x.w, out |-> <<>>,
                ind |-> (IF spawn THEN <<RReport(r0)>> ELSE <<>>) \o x.ind, res |-> x.res]
       [] e.a = "Deliver" ->
            IF s.alive THEN LET x == SPdu(s, C, Strip(e.pin)) IN [s |-> x.s, r |-> r, w |-> w, out |-> <<>>, ind |-> x.ind, res |-> x.res]
            ELSE Unchanged(mm, "no_sender")
       [] OTHER -> Unchanged(mm, e.res)        \* Drop, Dup, Corrupt, Inject: link only

\* parts in which prediction and record differ
Diff(p, e, C) ==
  LET js == SOfSnap(e.S)
      jr == ROfSnap(e.R)
  IN   (IF p.s # js THEN {"S"} ELSE {})
  \cup (IF p.r # jr THEN {"R"} ELSE {})
  \cup (IF p.s.alive /\ e.S.alive /\ SGuards(p.s, C) # SnapGuards(e.S) THEN {"Sguards"} ELSE {})
  \cup (IF p.r.alive /\ e.R.alive /\ RGuards(p.r, C) # SnapGuards(e.R) THEN {"Rguards"} ELSE {})
  \cup (IF p.out # StripAll(e.out) THEN {"out"} ELSE {})
  \cup (IF p.ind # e.ind THEN {"ind"} ELSE {})
  \* (the result of process_pdu is not observable in a running daemon)
  \cup (IF p.res # e.res /\ ~("level" \in DOMAIN C /\ C.level = "D") THEN {"res"} ELSE {})
  \cup (IF p.w.dest # e.dest THEN {"dest"} ELSE {})
  \cup (IF p.w.tree # e.tree THEN {"tree"} ELSE {})

Init == /\ l = 1
        /\ rs = 0
        /\ o = [none |-> TRUE]
        /\ m = [none |-> TRUE]

Next ==
  /\ l <= Len(Rec)
  /\ l' = l + 1
  /\ IF IsReset(Rec[l])
     THEN /\ rs' = l
          /\ o' = ObsInit(Rec[l].cfg)
          /\ m' = [s |-> SInit(Rec[l].cfg), r |-> RDead,
                   w |-> [dest |-> [st |-> "absent", len |-> 0], tree |-> Rec[l].cfg.pre]]
     ELSE LET e == Rec[l]
              C == Rec[rs].cfg
              st == Step(o, e, C)
              p == Predict(m, e, C)
              d == Diff(p, e, C)
          IN /\ rs' = rs
             /\ o' = st.o
             /\ m' = [s |-> SOfSnap(e.S), r |-> ROfSnap(e.R), w |-> [dest |-> e.dest, tree |-> e.tree]]
             /\ \A x \in st.v : PrintT(<<"VIOL", Rec[rs].id, e.i, x[1], x[2]>>)
             /\ d # {} => PrintT(<<"DRIFT", Rec[rs].id, e.i, e.a, d>>)
             /\ (d # {} /\ "DETAIL" \in DOMAIN IOEnv) =>
                   PrintT(<<"DETAIL", Rec[rs].id, e.i, [s |-> p.s, r |-> p.r, out |-> p.out, ind |-> p.ind, res |-> p.res, w |-> p.w],
                            [s |-> SOfSnap(e.S), r |-> ROfSnap(e.R)]>>)

Spec == Init /\ [][Next]_vars

Consumed == PrintT(<<"CONSUMED", TLCGet("stats").diameter - 1, Len(Rec)>>)
=============================================================================
