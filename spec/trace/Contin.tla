-------------------------------- MODULE Contin --------------------------------
(***************************************************************************)
(* Drift-directed continuation (DESIGN.md 2.1).                             *)
(*                                                                         *)
(* When trace validation reports DRIFT - the real code left the model at   *)
(* some step without (yet) violating a property - the exhaustive result on  *)
(* the model no longer transfers.  Instead of guessing, the state the REAL  *)
(* code is in after the drifting step is made the initial state of the      *)
(* model: sender, receiver and filestore from the recorded snapshot, the    *)
(* link contents and the budgets by folding the recorded prefix, the        *)
(* observation state by folding Props!Step over it.  TLC then explores      *)
(* every continuation (further faults, user commands, blackouts, ticks)     *)
(* and reports a behaviour that violates the property at hand; the prefix   *)
(* plus that behaviour is replayed on the real code, and only what the      *)
(* monitor sees THERE is a verdict.                                         *)
(*                                                                         *)
(* PREFIX (environment variable): ndjson, the Reset line of the run and its *)
(* recorded lines up to and including the drifting one.                     *)
(***************************************************************************)
EXTENDS Cfdp, Snap, Json, IOUtils

CONSTANT PropTags      \* tags of the property being decided

Pre == ndJsonDeserialize(IOEnv.PREFIX)
L == Len(Pre)

Cut(q, i) == SubSeq(q, 1, i - 1) \o SubSeq(q, i + 1, Len(q))
Twice(q, i) == SubSeq(q, 1, i) \o <<q[i]>> \o SubSeq(q, i + 1, Len(q))

\* link contents and budgets after line n (line 1 is the Reset line)
RECURSIVE Link(_)
Link(n) ==
  IF n = 1 THEN [c2r |-> <<>>, c2s |-> <<>>, used |-> {}, nf |-> 0, black |-> {}, inj |-> {}]
  ELSE LET q == Link(n - 1)
           e == Pre[n]
           onR == e.ch = "c2r"
           okIdx == e.idx \in 1 .. Len(IF onR THEN q.c2r ELSE q.c2s)
       IN CASE e.a = "S_Send" /\ e.res # "disabled" -> [q EXCEPT !.c2r = @ \o StripAll(e.out)]
            [] e.a = "R_Send" /\ e.res # "disabled" -> [q EXCEPT !.c2s = @ \o StripAll(e.out)]
            [] e.a \in {"Deliver", "Drop"} /\ e.res # "disabled" /\ okIdx ->
                 [q EXCEPT !.c2r = IF onR THEN Cut(@, e.idx) ELSE @,
                           !.c2s = IF onR THEN @ ELSE Cut(@, e.idx),
                           !.nf = IF (e.a = "Deliver" /\ e.idx > 1) \/ (e.a = "Drop" /\ e.ch \notin q.black) THEN @ + 1 ELSE @]
            [] e.a = "Dup" /\ e.res # "disabled" /\ okIdx ->
                 [q EXCEPT !.c2r = IF onR THEN Twice(@, e.idx) ELSE @,
                           !.c2s = IF onR THEN @ ELSE Twice(@, e.idx), !.nf = @ + 1]
            [] e.a = "Blackout" -> [q EXCEPT !.black = @ \cup {e.ch}]
            [] e.a = "Inject" -> [q EXCEPT !.c2r = IF onR THEN Append(@, Strip(e.pin)) ELSE @,
                                           !.c2s = IF onR THEN @ ELSE Append(@, Strip(e.pin)),
                                           !.inj = @ \cup {e.idx}]
            [] e.a = "S_Cmd" -> [q EXCEPT !.used = @ \cup {<<"S", e.c>>}]
            [] e.a = "R_Cmd" -> [q EXCEPT !.used = @ \cup {<<"R", e.c>>}]
            [] e.a = "Tick" -> [q EXCEPT !.nf = IF e.nc2r + e.nc2s > 0 THEN @ + 1 ELSE @]
            [] OTHER -> q

\* observation state after line n
RECURSIVE Obs(_)
Obs(n) == IF n = 1 THEN ObsInit(C) ELSE Step(Obs(n - 1), Pre[n], C).o

CInit ==
  LET e == Pre[L]
      q == Link(L)
  IN /\ s = SOfSnap(e.S)
     /\ r = ROfSnap(e.R)
     /\ w = [dest |-> e.dest, tree |-> e.tree]
     /\ c2r = q.c2r /\ c2s = q.c2s
     /\ rinc = e.rinc
     /\ used = q.used
     /\ nf = q.nf
     /\ black = q.black
     /\ inj = q.inj
     /\ o = Obs(L)
     /\ ev = [a |-> "Init"]
     /\ viol = {}
     /\ hist = <<>>

CSpec == CInit /\ [][Next]_vars

\* the property at hand is not violated by any continuation (recorded findings apart)
NoNewViolation == \A x \in viol : x[1] \notin PropTags \/ x[2] \in KnownSigs
=============================================================================
