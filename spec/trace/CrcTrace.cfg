SPECIFICATION Spec
INVARIANT Judge
POSTCONDITION Consumed
CHECK_DEADLOCK FALSE
