SPECIFICATION Spec
POSTCONDITION Consumed
CHECK_DEADLOCK FALSE
