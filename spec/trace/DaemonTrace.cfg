SPECIFICATION Spec
CONSTANT Entities = {1, 2, 3}
CONSTANT MaxSeq = 100
CONSTANT Strays = {}
POSTCONDITION Consumed
CHECK_DEADLOCK FALSE
