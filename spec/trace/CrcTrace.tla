------------------------------ MODULE CrcTrace ------------------------------
(* the CRC the code appended to real encodings, judged against Crc.tla:    *)
(* one ndjson record {"bytes":[..], "crc":n} per line                       *)
EXTENDS Crc, Json, IOUtils
Rec == ndJsonDeserialize(IOEnv.TRACE)
VARIABLE l
Init == l = 1
Next == l <= Len(Rec) /\ l' = l + 1
Spec == Init /\ [][Next]_l
Judge == l <= Len(Rec) => (Crc(Rec[l].bytes) = Rec[l].crc \/ PrintT(<<"BAD", l, Crc(Rec[l].bytes), Rec[l].crc>>))
Consumed == PrintT(<<"CONSUMED", TLCGet("stats").diameter - 1, Len(Rec)>>)
=============================================================================
