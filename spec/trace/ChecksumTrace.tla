--------------------------- MODULE ChecksumTrace ---------------------------
(***************************************************************************)
(* Validates checksum values recorded from the real `checksum()` against   *)
(* the definition in Checksum.tla.  One ndjson record per line:            *)
(*   {"bytes":[..], "hi":h, "lo":l, "null":v}                              *)
(* hi/lo: halves of the Modular checksum returned by the code, null: the   *)
(* value returned for ChecksumType::Null.  A mismatch prints a BAD tuple;  *)
(* all records are examined.                                               *)
(***************************************************************************)
EXTENDS Checksum, Json, IOUtils

Rec == ndJsonDeserialize(IOEnv.TRACE)

VARIABLE l
Init == l = 1
Next == l <= Len(Rec) /\ l' = l + 1
Spec == Init /\ [][Next]_l

Good(r) == Sum(r.bytes) = <<r.hi, r.lo>> /\ r.null = 0

Judge ==
  l <= Len(Rec) =>
     (Good(Rec[l]) \/ PrintT(<<"BAD", l, Sum(Rec[l].bytes), <<Rec[l].hi, Rec[l].lo>>, Rec[l].null>>))

Consumed == PrintT(<<"CONSUMED", TLCGet("stats").diameter - 1, Len(Rec)>>)
=============================================================================
