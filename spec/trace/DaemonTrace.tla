----------------------------- MODULE DaemonTrace -----------------------------
(***************************************************************************)
(* Trace validation of the daemon layer (C11): the put / route / task /    *)
(* reap events recorded by the hooks of real Daemons (Level D runs) are    *)
(* replayed through the operators of Daemon.tla.                           *)
(*   - every routing decision of forward_pdu is compared with Route(...)   *)
(*     on the channel map reconstructed from the events   (DRIFT if not)   *)
(*   - the C11 predicates are evaluated on what the daemons really did:    *)
(*       IdsDistinct       ids handed out for Put requests are distinct    *)
(*       DaemonAlive       no daemon task exits, whatever arrives          *)
(*       ForeignPduDelivered  a transaction task only ever processes PDUs   *)
(*                         whose header carries its own (source, seq)      *)
(*       AllEnd            every transaction task (also those started by   *)
(*                         stray or replayed PDUs) has ended by the horizon*)
(* One ndjson record per event; a file holds many runs, each starting with *)
(* a record k = "scenario" that lists the entities.                        *)
(***************************************************************************)
EXTENDS Integers, Sequences, FiniteSets, TLC, Json, IOUtils

CONSTANTS Entities, MaxSeq, Strays
INSTANCE Daemon0

Rec == ndJsonDeserialize(IOEnv.TRACE)

VARIABLES l, rs, chan, ids, live
vars == <<l, rs, chan, ids, live>>

Ents(x) == {x.entities[i] : i \in 1 .. Len(x.entities)}

Init == /\ l = 1 /\ rs = 0
        /\ chan = <<>> /\ ids = {} /\ live = {}

Upd(f, k, v) == [x \in (DOMAIN f) \cup {k} |-> IF x = k THEN v ELSE f[x]]
Del(f, k) == [x \in (DOMAIN f) \ {k} |-> f[x]]

Next ==
  /\ l <= Len(Rec)
  /\ l' = l + 1
  /\ LET e == Rec[l] IN
     CASE e.k = "scenario" ->
            /\ rs' = l
            /\ chan' = [x \in Ents(e) |-> <<>>]
            /\ ids' = {} /\ live' = {}
       [] e.k = "put" ->
            LET id == <<e.tx[1], e.tx[2]>> IN
            /\ (id \in ids \/ e.tx[1] # e.ent) => PrintT(<<"VIOL", Rec[rs].id, e.n, "C11:IdsDistinct", "">>)
            /\ ids' = ids \cup {id}
            /\ chan' = [chan EXCEPT ![e.ent] = Upd(chan[e.ent], id, [role |-> "S", st |-> "live"])]
            /\ UNCHANGED <<rs, live>>
       [] e.k = "route" ->
            LET key == <<e.tx[1], e.tx[2]>>
                others == Ents(Rec[rs]) \ {e.ent}
                r == Route(chan[e.ent], others, e.tx[1], e.tx[2], e.dir, e.peer)
                \* the hook reports a failed hand-over to an ended task as "closed", whatever happens next
                same == r.outcome = e.outcome \/ (e.outcome = "closed" /\ r.outcome \in {"respawn", "unable_to_resume", "closed_no_transport"})
            IN /\ ~same => PrintT(<<"DRIFT", Rec[rs].id, e.n, "route", <<r.outcome, e.outcome>>>>)
               /\ chan' = [chan EXCEPT ![e.ent] = r.ch]
               /\ UNCHANGED <<rs, ids, live>>
       [] e.k = "task_start" ->
            /\ live' = live \cup {<<e.ent, e.tx[1], e.tx[2], e.role>>}
            /\ UNCHANGED <<rs, chan, ids>>
       [] e.k = "task_end" ->
            LET key == <<e.tx[1], e.tx[2]>> IN
            /\ live' = live \ {<<e.ent, e.tx[1], e.tx[2], e.role>>}
            /\ chan' = IF key \in DOMAIN chan[e.ent] THEN [chan EXCEPT ![e.ent][key].st = "closed"] ELSE chan
            /\ e.panicking => PrintT(<<"VIOL", Rec[rs].id, e.n, "C11:TaskPanicked", "">>)
            /\ UNCHANGED <<rs, ids>>
       [] e.k = "reap" ->
            LET key == <<e.tx[1], e.tx[2]>> IN
            /\ chan' = IF e.ok /\ key \in DOMAIN chan[e.ent] /\ chan[e.ent][key].st = "closed"
                       THEN [chan EXCEPT ![e.ent] = Del(chan[e.ent], key)] ELSE chan
            /\ UNCHANGED <<rs, ids, live>>
       [] e.k = "deliver" ->
            \* a transaction task processes only PDUs whose header names that transaction
            /\ e.tx # e.hid => PrintT(<<"VIOL", Rec[rs].id, e.n, "C11:ForeignPduDelivered", "">>)
            /\ UNCHANGED <<rs, chan, ids, live>>
       [] e.k = "daemon_exit" ->
            /\ PrintT(<<"VIOL", Rec[rs].id, e.n, "C11:DaemonAlive", "">>)
            /\ UNCHANGED <<rs, chan, ids, live>>
       [] e.k = "daemon_alive" ->
            /\ ~e.alive => PrintT(<<"VIOL", Rec[rs].id, e.n, "C11:DaemonAlive", "">>)
            /\ UNCHANGED <<rs, chan, ids, live>>
       [] e.k = "horizon" ->
            /\ live # {} => PrintT(<<"VIOL", Rec[rs].id, e.n, "C11:AllEnd", "">>)
            /\ UNCHANGED <<rs, chan, ids, live>>
       [] OTHER -> UNCHANGED <<rs, chan, ids, live>>

Spec == Init /\ [][Next]_vars
Consumed == PrintT(<<"CONSUMED", TLCGet("stats").diameter - 1, Len(Rec)>>)
=============================================================================
