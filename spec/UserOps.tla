------------------------------ MODULE UserOps ------------------------------
(***************************************************************************)
(* Wire layout of the reserved CFDP user operations (cfdp-core/src/pdu/     *)
(* user_ops.rs) and of the status report (cfdp-core/src/daemon.rs Report):  *)
(* every message is a TEMPLATE, a sequence of fields                        *)
(*    <<"lit", v>>   one octet with the value v                             *)
(*    <<"id", w>>    an identifier of w octets (any value)                  *)
(*    <<"rnd", n>>   n arbitrary octets                                     *)
(*    <<"asc", n>>   n octets of a file name                                *)
(* The template is the specification of encode(); because every field of a  *)
(* message value is determined by the octets, it is also the specification  *)
(* of decode().  C05 for these messages (DESIGN.md 6.5):                    *)
(*   for every octet string w that instantiates a template,                 *)
(*      decode(w) succeeds, encode(decode(w)) = w, encoded_len = Len(w),    *)
(* which, the templates covering every message value, gives                 *)
(*   decode(encode(x)) = x for every x.                                     *)
(* TLC enumerates the discrete shape space (operation x identifier widths x *)
(* every value of every packed field x length classes), checks the laws     *)
(* below and prints every template; the harness instantiates and replays.   *)
(***************************************************************************)
EXTENDS Integers, Sequences, FiniteSets, TLC

Widths == {1, 2, 4, 8}
Conds == (0 .. 11) \cup {14, 15}             \* header.rs Condition
Handlers == 1 .. 4                           \* fault_handler.rs HandlerCode
Actions == 0 .. 8                            \* filestore.rs FileStoreAction
\* filestore.rs: the status nibbles defined per action
StatusOf(a) ==
  CASE a = 0 -> {0, 1, 15}
    [] a = 1 -> {0, 1, 2, 15}
    [] a \in {2, 3, 4} -> {0, 1, 2, 3, 15}
    [] a = 5 -> {0, 1, 15}
    [] a = 6 -> {0, 1, 6, 15}
    [] OTHER -> {0, 2, 15}

Lit(v) == <<"lit", v>>
Idf(w) == <<"id", w>>
Rnd(n) == <<"rnd", n>>
Asc(n) == <<"asc", n>>
LvAsc(n) == <<Lit(n), Asc(n)>>
LvRnd(n) == <<Lit(n), Rnd(n)>>
LvId(w) == <<Lit(w), Idf(w)>>
\* the packed widths octet: "length - 1" of the entity id in bits 6-4, of the sequence number in bits 2-0
Nib(idw, seqw) == Lit(16 * (idw - 1) + (seqw - 1))
Ids(sh) == <<Nib(sh.idw, sh.seqw), Idf(sh.idw), Idf(sh.seqw)>>

FsReqBody(sh) == <<Lit(16 * sh.act)>> \o LvAsc(sh.l1) \o LvAsc(sh.l2)
FsRespBody(sh) == <<Lit(16 * sh.act + sh.st)>> \o LvAsc(sh.l1) \o LvAsc(sh.l2) \o LvRnd(sh.l3)
FLen(f) == IF f[1] = "lit" THEN 1 ELSE f[2]
RECURSIVE TLen(_)
TLen(t) == IF t = <<>> THEN 0 ELSE FLen(Head(t)) + TLen(Tail(t))

Code ==
  [ OrigTxId |-> 10, ProxyPutRequest |-> 0, ProxyMessageToUser |-> 1, ProxyFileStoreRequest |-> 2,
    ProxyFaultHandlerOverride |-> 3, ProxyTransmissionMode |-> 4, ProxyFlowLabel |-> 5,
    ProxySegmentationControl |-> 6, ProxyPutResponse |-> 7, ProxyFileStoreResponse |-> 8, ProxyPutCancel |-> 9,
    DirectoryListingRequest |-> 16, DirectoryListingResponse |-> 17,
    RemoteStatusReportRequest |-> 32, RemoteStatusReportResponse |-> 33,
    RemoteSuspendRequest |-> 48, RemoteSuspendResponse |-> 49, RemoteResumeRequest |-> 56, RemoteResumeResponse |-> 57,
    SFORequest |-> 64, SFOMessageToUser |-> 65, SFOFlowLabel |-> 66, SFOFaultHandlerOverride |-> 67,
    SFOFileStoreRequest |-> 68, SFOReport |-> 69, SFOFileStoreResponse |-> 70 ]
Ops == DOMAIN Code

\* the body that follows "cfdp" and the message-type octet
Body(sh) ==
  LET op == sh.op IN
  CASE op = "OrigTxId" -> Ids(sh)
    [] op = "ProxyPutRequest" -> LvId(sh.idw) \o LvAsc(sh.l1) \o LvAsc(sh.l2)
    [] op \in {"ProxyMessageToUser", "ProxyFlowLabel", "SFOMessageToUser", "SFOFlowLabel"} -> LvRnd(sh.l1)
    [] op \in {"ProxyFileStoreRequest", "SFOFileStoreRequest"} -> <<Lit(TLen(FsReqBody(sh)))>> \o FsReqBody(sh)
    [] op \in {"ProxyFileStoreResponse", "SFOFileStoreResponse"} -> <<Lit(TLen(FsRespBody(sh)))>> \o FsRespBody(sh)
    [] op \in {"ProxyFaultHandlerOverride", "SFOFaultHandlerOverride"} -> <<Lit(sh.h)>>
    [] op \in {"ProxyTransmissionMode", "ProxySegmentationControl"} -> <<Lit(sh.bit)>>
    [] op = "ProxyPutResponse" -> <<Lit(16 * sh.cond + 4 * sh.bit + sh.st)>>
    [] op = "ProxyPutCancel" -> <<>>
    [] op = "DirectoryListingRequest" -> LvAsc(sh.l1) \o LvAsc(sh.l2)
    [] op = "DirectoryListingResponse" -> <<Lit(128 * sh.bit)>> \o LvAsc(sh.l1) \o LvAsc(sh.l2)
    [] op = "RemoteStatusReportRequest" -> Ids(sh) \o LvAsc(sh.l1)
    [] op = "RemoteStatusReportResponse" -> <<Lit(64 * sh.st + sh.bit)>> \o Ids(sh)
    [] op \in {"RemoteSuspendRequest", "RemoteResumeRequest"} -> Ids(sh)
    [] op \in {"RemoteSuspendResponse", "RemoteResumeResponse"} -> <<Lit(128 * sh.bit + 32 * sh.st)>> \o Ids(sh)
    [] op = "SFORequest" -> <<Lit(64 * sh.st + 32 * sh.bit + 16 * sh.bit2 + 8 * sh.bit3), Lit(sh.wp)>>
                            \o LvRnd(sh.l3) \o LvId(sh.idw) \o LvId(sh.seqw) \o LvAsc(sh.l1) \o LvAsc(sh.l2)
    [] OTHER -> \* SFOReport
                LvRnd(sh.l3) \o LvId(sh.idw) \o LvId(sh.seqw) \o LvId(sh.idw)
                \o <<Lit(sh.wp), Lit(sh.wp), Lit(16 * sh.cond + 8 * sh.bit + 4 * sh.bit2 + sh.st)>>

Cfdp == <<Lit(99), Lit(102), Lit(100), Lit(112)>>          \* "cfdp"
Template(sh) == Cfdp \o <<Lit(Code[sh.op])>> \o Body(sh)

\* the status report (daemon.rs Report): both ids with their length octets, then state, status, condition
ReportTemplate(sh) == <<Lit(sh.idw - 1), Idf(sh.idw), Lit(sh.seqw - 1), Idf(sh.seqw), Lit(sh.state), Lit(sh.st), Lit(sh.cond)>>

\* ------------------------------------------------------------ laws
\* every literal is an octet; a message fits the one-octet length of the Message-to-User TLV that carries it
OctetsOk(t) == \A i \in 1 .. Len(t) : t[i][1] = "lit" => t[i][2] \in 0 .. 255
FitsTlv(t) == TLen(t) <= 255
\* the widths octet is read back as the widths it was built from (the decoder's masks: user_ops.rs:375-376 etc.)
NibRoundTrip(idw, seqw) ==
  LET o == 16 * (idw - 1) + (seqw - 1) IN ((o \div 16) % 8) + 1 = idw /\ (o % 8) + 1 = seqw
=============================================================================
