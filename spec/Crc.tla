--------------------------------- MODULE Crc ---------------------------------
(***************************************************************************)
(* CRC-16/IBM-3740 (polynomial 0x1021, initial value 0xFFFF, no reflection, *)
(* no final xor) bit by bit, as appended to PDUs by cfdp-core/src/pdu.rs    *)
(* (property C15).                                                         *)
(*                                                                         *)
(*   Crc(bytes)   the checksum of a frame                                  *)
(*   Lin(bytes)   its linear part (initial value 0): for an error pattern  *)
(*                e over the data and c over the two CRC octets,           *)
(*                Crc(m xor e) = Crc(m) xor Lin(e), so the corruption goes *)
(*                undetected iff Lin(e) = c.                               *)
(* MC_Crc checks the standard test vector and, for frames up to a bound,   *)
(* that no single-bit, double-bit or burst (<= 16 bits) error pattern is   *)
(* undetected.  Beyond the bound the detection property is mathematics     *)
(* about the polynomial, not something TLC decides.                        *)
(***************************************************************************)
EXTENDS Integers, Sequences, Bitwise, TLC

Step(crc) == IF crc >= 32768 THEN ((crc * 2) % 65536) ^^ 4129 ELSE (crc * 2) % 65536      \* 0x1021 = 4129

RECURSIVE Shift(_, _)
Shift(crc, n) == IF n = 0 THEN crc ELSE Shift(Step(crc), n - 1)

Byte(crc, b) == Shift(crc ^^ (b * 256), 8)

Fold(init, bytes) ==
  LET f[i \in 0 .. Len(bytes)] == IF i = 0 THEN init ELSE Byte(f[i - 1], bytes[i])
  IN f[Len(bytes)]

Crc(bytes) == Fold(65535, bytes)
Lin(bytes) == Fold(0, bytes)
=============================================================================
