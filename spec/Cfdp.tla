-------------------------------- MODULE Cfdp --------------------------------
(***************************************************************************)
(* One CFDP transaction between a sending and a receiving entity over a    *)
(* faulty link: composition of Sender.tla and Receiver.tla, the link, the  *)
(* clock and the two users.                                                *)
(*                                                                         *)
(* Actions = iterations of the two transaction tasks' loops (send / one    *)
(* command / timeout), link events (deliver, drop, duplicate, reorder,     *)
(* hold across a tick), ticks of the clock, user commands.  Every action   *)
(* produces an EVENT record `ev` of exactly the shape the harness records  *)
(* from the real code; the observation state `o` and the set `viol` of     *)
(* violated properties are computed from the events by Props!Step - the    *)
(* same operator that judges recorded traces.                              *)
(*                                                                         *)
(* Timing assumptions (DESIGN.md 3.2): A1 timers are serviced - a tick     *)
(* never jumps over a deadline of a live entity; A2 local steps are urgent *)
(* - time passes only when no entity can send and no timeout is due.       *)
(***************************************************************************)
EXTENDS Cfdp0

CONSTANTS Cfg,         \* configuration record of the transaction (see MC modules)
          MaxFaults,   \* link fault budget (drop, duplicate, reorder, hold)
          Cmds,        \* user commands that may be issued, each at most once: <<entity, command>>
          KnownSigs,   \* signatures of recorded findings tolerated by the as-is invariants
          FaultKinds,  \* which link faults are explored: subset of {"drop", "dup", "reorder", "hold"}
          Blackouts,   \* directions of the link that may go dark for good: subset of {"c2r", "c2s"}
          Injects      \* PDUs an adversarial peer may put on the link, each once: sequence of [ch, pdu]

VARIABLES s, r, w,     \* sender, receiver, receiver's world (destination file, directory tree)
          c2r, c2s,    \* the two directions of the link (sequences of PDUs)
          rinc,        \* number of receive transactions spawned so far for this id
          used,        \* user commands already issued
          nf,          \* link faults so far
          black,       \* directions that have gone dark
          inj,         \* indices of Injects already used
          o,           \* observation state (Props)
          ev,          \* the last event
          viol,        \* properties violated by the last event: set of <<tag, signature>>
          hist         \* the actions taken so far (hidden from the fingerprint by View)

vars == <<s, r, w, c2r, c2s, rinc, used, nf, black, inj, o, ev, viol, hist>>
View == <<s, r, w, c2r, c2s, rinc, used, nf, black, inj, o, viol>>

C == Cfg

NoPdu == [k |-> "None"]

MkEv(a, ch, idx, d, c, res, out, ind, pin, s2, r2, w2, rinc2, n1, n2) ==
  [ a |-> a, ch |-> ch, idx |-> idx, d |-> d, c |-> c, res |-> res, out |-> out, ind |-> ind, pin |-> pin,
    dest |-> w2.dest, tree |-> w2.tree, salive |-> s2.alive, ralive |-> r2.alive, rinc |-> rinc2,
    nc2r |-> n1, nc2s |-> n2,
    S |-> [until |-> SUntil(s2, C), can |-> SCan(s2), alive |-> s2.alive,
           st |-> IF s2.alive THEN s2.st ELSE "Fin", txs |-> IF s2.alive THEN s2.txs ELSE "Term"],
    R |-> [until |-> RUntil(r2, C), can |-> RCan(r2)] ]

\* compact form of an action for the emitted scripts: <<action, channel, index or seconds, command>>
Act(a, ch, idx, d, c) == <<a, ch, idx + d, c>>

\* the action history feeds the script emission; the liveness configuration replaces KeepHist by FALSE
\* (CONSTANT KeepHist <- ...) so that the state space stays finite without a VIEW
KeepHist == TRUE

\* common tail of every action: record the event, observe, remember the action
Finish(e, act) ==
  LET st == Step(o, e, C) IN
  /\ ev' = e
  /\ o' = st.o
  /\ viol' = st.v
  /\ hist' = IF KeepHist THEN Append(hist, act) ELSE hist

Init ==
  /\ s = SInit(C)
  /\ r = RDead
  /\ w = [dest |-> [st |-> "absent", len |-> 0], tree |-> C.pre]
  /\ c2r = <<>> /\ c2s = <<>>
  /\ rinc = 0
  /\ used = {}
  /\ nf = 0
  /\ black = {}
  /\ inj = {}
  /\ o = ObsInit(C)
  /\ ev = [a |-> "Init"]
  /\ viol = {}
  /\ hist = <<>>

\* ------------------------------------------------------------ entity steps
S_Send ==
  /\ SCan(s)
  /\ LET x == SSend(s, C) IN
     /\ s' = x.s
     /\ c2r' = c2r \o x.out
     /\ UNCHANGED <<r, w, c2s, rinc, used, nf, black, inj>>
     /\ Finish(MkEv("S_Send", "", 0, 0, "", x.res, x.out, x.ind, NoPdu, x.s, r, w, rinc, Len(c2r'), Len(c2s)),
               Act("S_Send", "", 0, 0, ""))

R_Send ==
  /\ RCan(r)
  /\ LET x == RSend(r, w, C) IN
     /\ r' = x.r
     /\ w' = x.w
     /\ c2s' = c2s \o x.out
     /\ UNCHANGED <<s, c2r, rinc, used, nf, black, inj>>
     /\ Finish(MkEv("R_Send", "", 0, 0, "", x.res, x.out, x.ind, NoPdu, s, x.r, x.w, rinc, Len(c2r), Len(c2s')),
               Act("R_Send", "", 0, 0, ""))

S_Timeout ==
  /\ s.alive /\ SUntil(s, C) = 0
  /\ LET x == STimeout(s, C) IN
     /\ s' = x.s
     /\ UNCHANGED <<r, w, c2r, c2s, rinc, used, nf, black, inj>>
     /\ Finish(MkEv("S_Timeout", "", 0, 0, "", x.res, <<>>, x.ind, NoPdu, x.s, r, w, rinc, Len(c2r), Len(c2s)),
               Act("S_Timeout", "", 0, 0, ""))

R_Timeout ==
  /\ r.alive /\ RUntil(r, C) = 0
  /\ LET x == RTimeout(r, w, C) IN
     /\ r' = x.r
     /\ w' = x.w
     /\ UNCHANGED <<s, c2r, c2s, rinc, used, nf, black, inj>>
     /\ Finish(MkEv("R_Timeout", "", 0, 0, "", x.res, <<>>, x.ind, NoPdu, s, x.r, x.w, rinc, Len(c2r), Len(c2s)),
               Act("R_Timeout", "", 0, 0, ""))

\* ------------------------------------------------------------ link
Without(q, i) == SubSeq(q, 1, i - 1) \o SubSeq(q, i + 1, Len(q))

\* deliver the i-th PDU in flight towards the receiver (i > 1: it overtakes, a link fault).
\* The daemon spawns a receive transaction for a PDU that finds none (lib.rs:447-470, 494-521).
DeliverR(i) ==
  /\ "c2r" \notin black
  /\ i \in 1 .. Len(c2r)
  /\ i > 1 => (nf < MaxFaults /\ "reorder" \in FaultKinds)
  /\ LET p == c2r[i]
         spawn == ~r.alive
         r0 == IF spawn THEN RInit(C) ELSE r
         x == RPdu(r0, w, C, p)
         inc == IF spawn THEN rinc + 1 ELSE rinc
         ind == (IF spawn THEN <<RReport(r0)>> ELSE <<>>) \o x.ind
     IN /\ r' = x.r
        /\ w' = x.w
        /\ c2r' = Without(c2r, i)
        /\ rinc' = inc
        /\ nf' = IF i > 1 THEN nf + 1 ELSE nf
        /\ UNCHANGED <<s, c2s, used, black, inj>>
        /\ Finish(MkEv("Deliver", "c2r", i, 0, "", x.res, <<>>, ind, p, s, x.r, x.w, inc, Len(c2r'), Len(c2s)),
                  Act("Deliver", "c2r", i, 0, ""))

\* towards the sender; a PDU for a sender that has ended is discarded (lib.rs:476-480, 523-533)
DeliverS(i) ==
  /\ "c2s" \notin black
  /\ i \in 1 .. Len(c2s)
  /\ i > 1 => (nf < MaxFaults /\ "reorder" \in FaultKinds)
  /\ LET p == c2s[i]
         x == IF s.alive THEN SPdu(s, C, p) ELSE [s |-> s, out |-> <<>>, ind |-> <<>>, res |-> "no_sender"]
     IN /\ s' = x.s
        /\ c2s' = Without(c2s, i)
        /\ nf' = IF i > 1 THEN nf + 1 ELSE nf
        /\ UNCHANGED <<r, w, c2r, rinc, used, black, inj>>
        /\ Finish(MkEv("Deliver", "c2s", i, 0, "", x.res, <<>>, x.ind, p, x.s, r, w, rinc, Len(c2r), Len(c2s')),
                  Act("Deliver", "c2s", i, 0, ""))

\* on a dark direction every PDU is lost (only the head is dropped: the order is immaterial)
Drop(ch, i) ==
  /\ IF ch \in black THEN i = 1 ELSE (nf < MaxFaults /\ "drop" \in FaultKinds)
  /\ i \in 1 .. Len(IF ch = "c2r" THEN c2r ELSE c2s)
  /\ c2r' = IF ch = "c2r" THEN Without(c2r, i) ELSE c2r
  /\ c2s' = IF ch = "c2s" THEN Without(c2s, i) ELSE c2s
  /\ nf' = IF ch \in black THEN nf ELSE nf + 1
  /\ UNCHANGED <<s, r, w, rinc, used, black, inj>>
  /\ Finish(MkEv("Drop", ch, i, 0, "", "ok", <<>>, <<>>, NoPdu, s, r, w, rinc, Len(c2r'), Len(c2s')),
            Act("Drop", ch, i, 0, ""))

Ins(q, i) == SubSeq(q, 1, i) \o <<q[i]>> \o SubSeq(q, i + 1, Len(q))
Dup(ch, i) ==
  /\ nf < MaxFaults /\ ch \notin black /\ "dup" \in FaultKinds
  /\ i \in 1 .. Len(IF ch = "c2r" THEN c2r ELSE c2s)
  /\ c2r' = IF ch = "c2r" THEN Ins(c2r, i) ELSE c2r
  /\ c2s' = IF ch = "c2s" THEN Ins(c2s, i) ELSE c2s
  /\ nf' = nf + 1
  /\ UNCHANGED <<s, r, w, rinc, used, black, inj>>
  /\ Finish(MkEv("Dup", ch, i, 0, "", "ok", <<>>, <<>>, NoPdu, s, r, w, rinc, Len(c2r'), Len(c2s')),
            Act("Dup", ch, i, 0, ""))

\* the direction goes dark for good (the peer falls silent / the link is cut)
Blackout(ch) ==
  /\ ch \in Blackouts \ black
  /\ black' = black \cup {ch}
  /\ UNCHANGED <<s, r, w, c2r, c2s, rinc, used, nf, inj>>
  /\ Finish(MkEv("Blackout", ch, 0, 0, "", "ok", <<>>, <<>>, NoPdu, s, r, w, rinc, Len(c2r), Len(c2s)),
            Act("Blackout", ch, 0, 0, ""))

\* an adversarial peer (or a stray source) puts a PDU on the link
Inject(k) ==
  /\ k \in (1 .. Len(Injects)) \ inj
  /\ inj' = inj \cup {k}
  /\ c2r' = IF Injects[k].ch = "c2r" THEN Append(c2r, Injects[k].pdu) ELSE c2r
  /\ c2s' = IF Injects[k].ch = "c2s" THEN Append(c2s, Injects[k].pdu) ELSE c2s
  /\ UNCHANGED <<s, r, w, rinc, used, nf, black>>
  /\ Finish(MkEv("Inject", Injects[k].ch, k, 0, "", "ok", <<>>, <<>>, Injects[k].pdu, s, r, w, rinc, Len(c2r'), Len(c2s')),
            Act("Inject", Injects[k].ch, k, 0, ""))

\* ------------------------------------------------------------ time
Quiet == ~SCan(s) /\ ~RCan(r) /\ SUntil(s, C) # 0 /\ RUntil(r, C) # 0
NextDeadline == UMin(SUntil(s, C), RUntil(r, C))
BudgetLeft == nf < MaxFaults \/ used # Cmds \/ black # Blackouts \/ inj # 1 .. Len(Injects)

Tick(d) ==
  /\ Quiet
  /\ (c2r = <<>> /\ c2s = <<>>) \/ (nf < MaxFaults /\ "hold" \in FaultKinds)   \* a PDU still in flight is being delayed
  /\ ("c2r" \in black => c2r = <<>>) /\ ("c2s" \in black => c2s = <<>>)
  /\ s.alive \/ r.alive
  /\ IF NextDeadline = Never
     THEN /\ d = Bound(C) + 1                           \* nothing will ever wake anybody up
          /\ \E e \in Ents : o.born[e] /\ ~o.ended[e] /\ o.idle[e] <= Bound(C)
     ELSE d = NextDeadline \/ (d = 1 /\ d < NextDeadline /\ BudgetLeft)
  /\ s' = STick(s, d)
  /\ r' = RTick(r, d)
  /\ nf' = IF c2r = <<>> /\ c2s = <<>> THEN nf ELSE nf + 1
  /\ UNCHANGED <<w, c2r, c2s, rinc, used, black, inj>>
  /\ Finish(MkEv("Tick", "", 0, d, "", "ok", <<>>, <<>>, NoPdu, s', r', w, rinc, Len(c2r), Len(c2s)),
            Act("Tick", "", 0, d, ""))

\* ------------------------------------------------------------ users
S_Cmd(c) ==
  /\ <<"S", c>> \in Cmds \ used
  /\ s.alive
  /\ LET x == SCmd(s, C, c) IN
     /\ s' = x.s
     /\ used' = used \cup {<<"S", c>>}
     /\ UNCHANGED <<r, w, c2r, c2s, rinc, nf, black, inj>>
     /\ Finish(MkEv("S_Cmd", "", 0, 0, c, x.res, <<>>, x.ind, NoPdu, x.s, r, w, rinc, Len(c2r), Len(c2s)),
               Act("S_Cmd", "", 0, 0, c))

R_Cmd(c) ==
  /\ <<"R", c>> \in Cmds \ used
  /\ r.alive
  /\ LET x == RCmd(r, w, C, c) IN
     /\ r' = x.r
     /\ w' = x.w
     /\ used' = used \cup {<<"R", c>>}
     /\ UNCHANGED <<s, c2r, c2s, rinc, nf, black, inj>>
     /\ Finish(MkEv("R_Cmd", "", 0, 0, c, x.res, <<>>, x.ind, NoPdu, s, x.r, x.w, rinc, Len(c2r), Len(c2s)),
               Act("R_Cmd", "", 0, 0, c))

CmdNames == {"Cancel", "Suspend", "Resume", "PromptNak", "PromptKeepAlive", "Report"}

Next ==
  \/ S_Send \/ R_Send \/ S_Timeout \/ R_Timeout
  \/ \E i \in 1 .. Len(c2r) : DeliverR(i)
  \/ \E i \in 1 .. Len(c2s) : DeliverS(i)
  \/ \E ch \in {"c2r", "c2s"} : \E i \in 1 .. (IF ch = "c2r" THEN Len(c2r) ELSE Len(c2s)) : Drop(ch, i) \/ Dup(ch, i)
  \/ \E ch \in {"c2r", "c2s"} : Blackout(ch)
  \/ \E k \in 1 .. Len(Injects) : Inject(k)
  \/ \E d \in 1 .. (Bound(C) + 1) : Tick(d)
  \/ \E c \in CmdNames : S_Cmd(c) \/ R_Cmd(c)

Spec == Init /\ [][Next]_vars

\* ------------------------------------------------------------ liveness (C02 / C03 on the model)
\* Fairness of what the SYSTEM does: the two tasks run, timers are serviced, time passes, the link delivers
\* what it has not lost (head of line), a dark direction loses everything.  Faults, commands, injections
\* and blackouts are the environment's: unfair, and bounded by their budgets.
Fair ==
  /\ WF_vars(S_Send) /\ WF_vars(R_Send) /\ WF_vars(S_Timeout) /\ WF_vars(R_Timeout)
  /\ WF_vars(c2r # <<>> /\ DeliverR(1)) /\ WF_vars(c2s # <<>> /\ DeliverS(1))
  /\ WF_vars(\E ch \in black : Drop(ch, 1))
  /\ WF_vars(\E d \in 1 .. (Bound(C) + 1) : Tick(d))
LiveSpec == Init /\ [][Next]_vars /\ Fair
\* every transaction ends - and stays ended (no endless respawning, no livelock of retransmissions)
BothEnd == <>[](~s.alive /\ ~r.alive)
\* acknowledged mode, fewer faults than the limit, no commands: both users see success (C02)
Succeeds == <>(o.succ["S"] /\ o.succ["R"])

\* ------------------------------------------------------------ properties
\* every listed property, on every step of every behaviour (tags as in Props.tla)
NoViolation == viol = {}
\* as-is: only the recorded findings may show
OnlyKnown == \A x \in viol : x[2] \in KnownSigs

\* ------------------------------------------------------------ script emission
\* evaluated for every generated successor: one line per edge of the bounded graph
EmitEdge == PrintT(<<"EDGE", hist'>>)
\* model violations that are not recorded findings (the exploration goes on)
EmitUnknown == (\E x \in viol' : x[2] \notin KnownSigs) => PrintT(<<"MVIOL", viol', hist'>>)
EmitAll == EmitEdge /\ EmitUnknown
=============================================================================
