---------------------------- MODULE MC_Transport ----------------------------
EXTENDS Integers, Sequences, TLC
CONSTANTS WholeBuffer, MaxDepth
\* @@LENS@@ is replaced by the orchestrator with the encoded lengths of the harness corpus
Lens == <<13, 34, 20>>
VARIABLES buf, depth, last, hist
INSTANCE Transport
=============================================================================
