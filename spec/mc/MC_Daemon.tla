------------------------------ MODULE MC_Daemon ------------------------------
EXTENDS Integers, Sequences, FiniteSets, TLC
Entities == {1, 2}
MaxSeq == 2
\* stray headers: responses to senders that do not exist, PDUs naming ids of other entities' transactions,
\* ids of ended transactions, both directions
Strays == { [to |-> 1, src |-> 2, seq |-> 0, dir |-> "ToSender",   dst |-> 1],   \* response for a transaction this entity never sent
            [to |-> 1, src |-> 1, seq |-> 0, dir |-> "ToSender",   dst |-> 2],   \* response for one of its own ids (live, ended or never used)
            [to |-> 1, src |-> 1, seq |-> 0, dir |-> "ToReceiver", dst |-> 2],   \* its own id coming back as if it were the receiver
            [to |-> 1, src |-> 3, seq |-> 0, dir |-> "ToReceiver", dst |-> 1],   \* from an entity it has no transport for
            [to |-> 2, src |-> 1, seq |-> 1, dir |-> "ToReceiver", dst |-> 2],   \* replayed / stray PDU that starts a receive transaction
            [to |-> 2, src |-> 1, seq |-> 0, dir |-> "ToSender",   dst |-> 2] }  \* response addressed to the receiving side
VARIABLES seq, chan, alive, ids, used
INSTANCE Daemon
MaxStrays == Cardinality(used) <= 3
=============================================================================
