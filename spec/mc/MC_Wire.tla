------------------------------- MODULE MC_Wire -------------------------------
(***************************************************************************)
(* Enumerates the shape space of Wire.tla (one initial state per shape),   *)
(* checks the laws and prints every shape with its predicted lengths and   *)
(* header octets; enumerates the boundary patterns of the first four       *)
(* octets for the decoder-arithmetic model.                                *)
(***************************************************************************)
EXTENDS Wire

CONSTANT Full        \* TRUE: all id / seq widths for every kind; FALSE: a covering subset

VARIABLE sh
Ext(c, r) == [k \in (DOMAIN c) \cup (DOMAIN r) |-> IF k \in DOMAIN r THEN r[k] ELSE c[k]]
Flags == IF Full THEN [crc : BOOLEAN, large : BOOLEAN, toSender : BOOLEAN, unack : BOOLEAN, segctl : BOOLEAN]
         ELSE \* a covering subset: every flag in both values, crc x large in all four combinations
              { [crc |-> FALSE, large |-> FALSE, toSender |-> FALSE, unack |-> FALSE, segctl |-> FALSE],
                [crc |-> TRUE,  large |-> FALSE, toSender |-> TRUE,  unack |-> FALSE, segctl |-> TRUE],
                [crc |-> FALSE, large |-> TRUE,  toSender |-> TRUE,  unack |-> TRUE,  segctl |-> FALSE],
                [crc |-> TRUE,  large |-> TRUE,  toSender |-> FALSE, unack |-> TRUE,  segctl |-> TRUE] }
Common == {Ext(f, w) : f \in Flags, w \in [idw : Widths, seqw : (IF Full THEN Widths ELSE {1, 8})]}
Zero == [datal |-> 0, metal |-> 0, err |-> FALSE, nresp |-> 0, l1 |-> 0, l2 |-> 0, t1 |-> "none", t2 |-> "none", nreq |-> 0]
LongCounts == {127, 128, 129, 255, 256, 257}
AllShapes ==
  {Ext(c, Ext(Zero, x)) : c \in Common,
     x \in [kind : {"FileData"}, datal : {0, 1, 100}]
       \cup [kind : {"FileDataSeg"}, datal : {0, 1, 100}, metal : {0, 1, 63}]
       \cup [kind : {"EOF"}, err : BOOLEAN]
       \cup [kind : {"Finished"}, err : BOOLEAN, nresp : {0, 1, 2}, l1 : {0, 1, 250, 255}, l2 : {0, 1}]
       \cup [kind : {"ACK", "Prompt", "KeepAlive"}]
       \cup [kind : {"Metadata"}, l1 : NameLens, l2 : {0, 1}, t1 : TlvKinds, t2 : {"none", "fsreq", "msg", "entity"}]
       \cup [kind : {"NAK"}, nreq : {0, 1, 3}]
       \* repetition counts at the boundaries of one-octet arithmetic (a length or an overhead accumulated in a u8 / i8
       \* goes wrong at 127/128 and 255/256 items): long lists of short items, still far below the 65535-octet data field
       \cup [kind : {"Finished"}, err : BOOLEAN, nresp : LongCounts, l1 : {0, 1}, l2 : {0}]
       \cup [kind : {"NAK"}, nreq : LongCounts]}
Shapes == {x \in AllShapes : WellFormed(x)}

Init == sh \in Shapes
Next == UNCHANGED sh
Spec == Init /\ [][Next]_sh

\* laws: the announced length is what the layout adds up to, and everything fits a u16
LengthsFit == DataLen(sh) <= 65535 /\ TotalLen(sh) = HeaderLen(sh) + DataLen(sh) + (IF sh.crc THEN 2 ELSE 0)
\* the header the decoder reads back from the layout's own octets is the shape's
HeaderRoundTrip ==
  LET lf == LenField(sh)
      d == HeaderDecode(Octet0(sh), lf \div 256, lf % 256, Octet3(sh), TotalLen(sh) - 4)
  IN d.ok /\ d.dlen = DataLen(sh) /\ d.need = TotalLen(sh) - 4

\* decoder arithmetic: for EVERY first octet and boundary values of the length / width octets, with
\* datagrams cut at every kind of length, no computed value leaves its machine type
Bnd == {0, 1, 2, 3, 127, 128, 254, 255}
ASSUME \A o0 \in 0 .. 255 : \A o1 \in Bnd : \A o2 \in Bnd : \A o3 \in {0, 1, 3, 7, 16, 48, 112, 119, 255} :
          \A avail \in {0, 1, 5, 24, 70000} : ArithInRange(o0, o1, o2, o3, avail)
ASSUME \A l \in 0 .. 255 : \A avail \in {0, 1, 8, 300} : IdInRange(l, avail)

\* the boundary patterns, with the layout's verdict, for the replay into the real decoders
FirstOctets == {32, 34, 33, 35, 48, 50, 40, 44, 0, 2, 96, 98, 255, 253, 18, 3}
EmitPatterns ==
  /\ \A o0 \in FirstOctets : \A o1 \in Bnd : \A o2 \in Bnd : \A o3 \in {0, 1, 3, 7, 16, 48, 112, 119, 255} : \A avail \in {0, 1, 5, 24, 70000} :
        PrintT(<<"HDR", o0, o1, o2, o3, avail, HeaderDecode(o0, o1, o2, o3, avail).ok>>)
  /\ \A l \in 0 .. 255 : \A avail \in {0, 1, 8, 300} : PrintT(<<"IDP", l, avail, IdDecode(l, avail).ok>>)

Emit == PrintT(<<"SHAPE", sh, HeaderLen(sh), DataLen(sh), TotalLen(sh), Octet0(sh), Octet3(sh)>>)
=============================================================================
