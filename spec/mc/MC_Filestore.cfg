SPECIFICATION Spec
CONSTANT Depth = 2
INVARIANT FailureChangesNothing
INVARIANT FailTheRest
INVARIANT WellFormed
ACTION_CONSTRAINT EmitEdge
VIEW View
CHECK_DEADLOCK FALSE
