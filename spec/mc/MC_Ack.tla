------------------------------- MODULE MC_Ack -------------------------------
EXTENDS Integers, Sequences, FiniteSets, TLC
CONSTANTS MaxFaults
Cfg == [mode |-> "ack", closure |-> FALSE, nakproc |-> "def", delay |-> 0, limit |-> 2,
        to |-> <<4, 2, 3>>, handlers |-> <<>>, crc |-> FALSE, cksum |-> "modular",
        seg |-> 2, unit |-> 8, file |-> <<1, 2, 0>>, isfile |-> TRUE, fsreqs |-> <<>>, pre |-> <<>>]
Cmds == {}
KnownSigs == {}
VARIABLES s, r, w, c2r, c2s, rinc, used, nf, o, ev, viol, hist
INSTANCE Cfdp
=============================================================================
