------------------------------- MODULE MC_Crc -------------------------------
EXTENDS Crc, FiniteSets

CONSTANTS L,        \* data octets of the frames considered (the CRC adds two)
          MaxBurst  \* bursts up to this length have every interior pattern enumerated

Vector == <<49, 50, 51, 52, 53, 54, 55, 56, 57>>       \* "123456789"
ASSUME Crc(Vector) = 10673                             \* 0x29B1

NBits == 8 * (L + 2)
\* the frame with exactly the bits of B set (bit 0 = most significant bit of the first octet)
Frame(B) == [i \in 1 .. (L + 2) |->
               LET bs == {b \in B : b \div 8 = i - 1}
                   f[S \in SUBSET bs] == IF S = {} THEN 0 ELSE LET x == CHOOSE y \in S : TRUE IN f[S \ {x}] + 2 ^ (7 - (x % 8))
               IN f[bs]]
\* undetected: the linear checksum of the damaged data equals the damage of the CRC octets
Undetected(B) ==
  LET fr == Frame(B)
      data == SubSeq(fr, 1, L)
      c == fr[L + 1] * 256 + fr[L + 2]
  IN Lin(data) = c

VARIABLE done
Init == done = FALSE
Next == done' = TRUE
Spec == Init /\ [][Next]_done

SingleBit == \A i \in 0 .. (NBits - 1) : ~Undetected({i})
DoubleBit == \A i \in 0 .. (NBits - 1) : \A j \in (i + 1) .. (NBits - 1) : ~Undetected({i, j})
\* bursts: first and last bit of the burst flipped, every interior pattern up to MaxBurst, both ends only up to 16
Bursts ==
  \A i \in 0 .. (NBits - 1) : \A len \in 2 .. 16 :
     (i + len <= NBits) =>
        IF len <= MaxBurst
        THEN \A I \in SUBSET ((i + 1) .. (i + len - 2)) : ~Undetected({i, i + len - 1} \cup I)
        ELSE ~Undetected({i, i + len - 1}) /\ ~Undetected(i .. (i + len - 1))
Odd3 == \A i \in 0 .. (NBits - 1) : \A j \in {i + 1, i + 7, i + 16} : \A k \in {j + 1, j + 5, j + 17} :
           (k < NBits) => ~Undetected({i, j, k})
=============================================================================
