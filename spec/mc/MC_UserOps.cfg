SPECIFICATION Spec
CONSTANT Full = FALSE
INVARIANT Laws
INVARIANT Emit
CHECK_DEADLOCK FALSE
