SPECIFICATION Spec
CONSTANT M = 6
INVARIANT ProgressIsCardinality
INVARIANT CompleteLaw
INVARIANT GapsLaw
INVARIANT RangesLaw
INVARIANT EmitState
ACTION_CONSTRAINT EmitEdge
CHECK_DEADLOCK FALSE
VIEW View
