SPECIFICATION Spec
CONSTANT Full = FALSE
INVARIANT LengthsFit
INVARIANT HeaderRoundTrip
INVARIANT Emit
CHECK_DEADLOCK FALSE
