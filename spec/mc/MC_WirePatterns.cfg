SPECIFICATION Spec
CONSTANT Full = FALSE
CHECK_DEADLOCK FALSE
