---------------------------- MODULE MC_Segments ----------------------------
(***************************************************************************)
(* Bounded model of the segment list over a universe of M byte positions.  *)
(* TLC checks the laws that make the operators of Segments.tla the right   *)
(* reading of property C09 and prints the reachable graph:                 *)
(*   STATE <held, ranges, complete-for-every-n, gaps-for-every-window>     *)
(*   EDGE  <held, a, b, new bytes, held'>                                  *)
(* which the harness walks on the real object.                             *)
(***************************************************************************)
EXTENDS Segments

CONSTANT M           \* byte positions 0..M-1

VARIABLES held,      \* set of byte positions held
          progress,  \* sum of the values returned by merge so far
          last       \* the call that led here (hidden from the fingerprint by View)

vars == <<held, progress, last>>
View == <<held, progress>>

Init == held = {} /\ progress = 0 /\ last = <<>>

DoMerge(a, b) ==
  /\ progress' = progress + NewBytes(held, a, b)
  /\ held' = Merge(held, a, b)
  /\ last' = <<a, b>>

Next == \E a \in 0 .. (M - 1) : \E b \in (a + 1) .. M : DoMerge(a, b)

Spec == Init /\ [][Next]_vars

\* ---------------------------------------------------------------- laws
Windows == {w \in (0 .. M) \X (0 .. M) : w[1] <= w[2]}

\* the progress reported is the number of distinct bytes held
ProgressIsCardinality == progress = Cardinality(held)

\* an empty file is complete at once; completeness is about [0,n) only
CompleteLaw ==
  /\ IsComplete(held, 0)
  /\ \A n \in 1 .. M : IsComplete(held, n) <=> \A x \in 0 .. (n - 1) : x \in held

\* gaps of a window: sorted, non-empty, disjoint, non-adjacent (maximal),
\* inside the window, and their union is exactly the uncovered part
GapsLaw ==
  \A w \in Windows :
    LET g == Gaps(held, w[1], w[2]) IN
      /\ \A i \in 1 .. Len(g) : g[i][1] < g[i][2] /\ w[1] <= g[i][1] /\ g[i][2] <= w[2]
      /\ \A i \in 1 .. (Len(g) - 1) : g[i][2] < g[i + 1][1]
      /\ UNION {Ival(g[i][1], g[i][2]) : i \in 1 .. Len(g)} = Ival(w[1], w[2]) \ held

RangesLaw ==
  LET r == Ranges(held) IN
      /\ \A i \in 1 .. Len(r) : r[i][1] < r[i][2]
      /\ \A i \in 1 .. (Len(r) - 1) : r[i][2] < r[i + 1][1]
      /\ UNION {Ival(r[i][1], r[i][2]) : i \in 1 .. Len(r)} = held

\* ---------------------------------------------------------------- graph dump
EmitState ==
  PrintT(<<"STATE", held, Ranges(held),
           [n \in 0 .. M |-> IsComplete(held, n)],
           [w \in Windows |-> Gaps(held, w[1], w[2])]>>)

\* evaluated for every generated successor (also those leading to known states)
EmitEdge ==
  PrintT(<<"EDGE", held, last'[1], last'[2], NewBytes(held, last'[1], last'[2]), held'>>)
=============================================================================
