SPECIFICATION Spec
INVARIANT IdsDistinct
INVARIANT DaemonAlive
INVARIANT RoutingSafe
INVARIANT NoSendFromStray
CONSTRAINT MaxStrays
CHECK_DEADLOCK FALSE
