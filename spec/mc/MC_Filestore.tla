--------------------------- MODULE MC_Filestore ---------------------------
(***************************************************************************)
(* Every sequence of up to Depth filestore requests over a small namespace *)
(* (two files, a directory with an entry in it, two free names).  TLC      *)
(* checks the laws of C13 on the specification (a failed request changes   *)
(* nothing; after the first failure the rest of a list is not performed)   *)
(* and prints the labelled state graph, which the harness walks on a real  *)
(* NativeFileStore: status octet and directory tree compared after every   *)
(* request.                                                                *)
(***************************************************************************)
EXTENDS Filestore, TLC

CONSTANT Depth

NamesU == {"f1", "f2", "d1", "d1/x", "g"}
Two == {"RenameFile", "AppendFile", "ReplaceFile"}
Requests == {[a |-> a, f1 |-> p, f2 |-> (IF a \in Two THEN q ELSE "")] : a \in Actions, p \in NamesU, q \in NamesU}

VARIABLES fs, depth, last
vars == <<fs, depth, last>>
View == <<fs, depth>>

Init == /\ fs = [n \in {"f1", "f2", "d1", "d1/x"} |->
                   IF n = "f1" THEN <<"f", 3>> ELSE IF n = "f2" THEN <<"f", 5>>
                   ELSE IF n = "d1" THEN <<"d", 0>> ELSE <<"f", 7>>]
        /\ depth = 0
        /\ last = [rq |-> [a |-> "", f1 |-> "", f2 |-> ""], st |-> 0]

Do(rq) == /\ depth < Depth
          /\ LET r == Apply(fs, rq) IN
             /\ fs' = r.fs
             /\ last' = [rq |-> rq, st |-> r.st]
          /\ depth' = depth + 1

Next == \E rq \in Requests : Do(rq)
Spec == Init /\ [][Next]_vars

\* C13 on the specification
FailureChangesNothing == \A rq \in Requests : FailedChangesNothing(fs, rq)
FailTheRest ==
  \A r1 \in Requests : \A r2 \in {x \in Requests : x.f1 = "g" \/ x.f1 = "f1"} :
     LET rr == RunRequests(fs, <<r1, r2>>)
         a1 == Apply(fs, r1)
     IN /\ rr.resp[1] = a1.st
        /\ IsSuccess(a1.st) => (rr.resp[2] = Apply(a1.fs, r2).st /\ rr.fs = Apply(a1.fs, r2).fs)
        /\ ~IsSuccess(a1.st) => (rr.resp[2] = NotPerformed(r2.a) /\ rr.fs = fs)
WellFormed == \A n \in DOMAIN fs : FsParentOk(fs, n) /\ fs[n][1] \in {"f", "d"}

EmitEdge == PrintT(<<"EDGE", fs, last'.rq, last'.st, fs'>>)
=============================================================================
