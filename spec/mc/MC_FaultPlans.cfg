SPECIFICATION Spec
CONSTANT N1 = 6
CONSTANT N2 = 4
CONSTANT F = 1
CONSTANT Delay = 3
CONSTANT Blackouts = TRUE
INVARIANT Emit
CHECK_DEADLOCK FALSE
