SPECIFICATION Spec
CONSTANT L = 4
INVARIANT Contained
INVARIANT DepthBound
ACTION_CONSTRAINT EmitEdge
VIEW View
CHECK_DEADLOCK FALSE
CONSTANT SibDepth = 3
