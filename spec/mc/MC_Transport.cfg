SPECIFICATION Spec
CONSTANT WholeBuffer = FALSE
CONSTANT MaxDepth = 2
INVARIANT NoStaleBytes
INVARIANT TruncatedRejected
INVARIANT CompleteAccepted
ACTION_CONSTRAINT EmitEdge
VIEW View
CHECK_DEADLOCK FALSE
