SPECIFICATION Spec
CONSTANT N = 10
CONSTANT K = 9
INVARIANT ChunkingIrrelevant
INVARIANT PrefixSum
INVARIANT EmitExpected
ACTION_CONSTRAINT EmitEdge
VIEW View
CHECK_DEADLOCK FALSE
