---- MODULE MC_Ack_TTrace_1790040226 ----
EXTENDS MC_Ack, Sequences, TLCExt, Toolbox, Naturals, TLC

_expression ==
    LET MC_Ack_TEExpression == INSTANCE MC_Ack_TEExpression
    IN MC_Ack_TEExpression!expression
----

_trace ==
    LET MC_Ack_TETrace == INSTANCE MC_Ack_TETrace
    IN MC_Ack_TETrace!trace
----

_inv ==
    ~(
        TLCGet("level") = Len(_TETrace)
        /\
        ev = ([rinc |-> 1, a |-> "R_Send", S |-> [until |-> 2, can |-> FALSE], out |-> <<[s |-> 0, e |-> 0, k |-> "NAK", hdr |-> TRUE, dir |-> "c2s", fits |-> TRUE, reqs |-> <<<<0, 0>>>>]>>, d |-> 0, ch |-> "", idx |-> 0, c |-> "", res |-> "ok", ind |-> <<>>, pin |-> [k |-> "None"], dest |-> [st |-> "absent", len |-> 0], tree |-> <<>>, salive |-> TRUE, ralive |-> TRUE, nc2r |-> 2, nc2s |-> 2, R |-> [until |-> 3, can |-> TRUE]])
        /\
        r = ([closure |-> FALSE, alive |-> TRUE, st |-> "Recv", cond |-> "NoError", ckok |-> TRUE, txs |-> "Active", status |-> "Undefined", deliv |-> "Incomplete", fstat |-> "Unreported", naks |-> <<<<0, 3>>>>, ack |-> FALSE, ackcond |-> "NoError", ackstatus |-> "Undefined", prompt |-> "None", tAck |-> [run |-> FALSE, el |-> 0, occ |-> FALSE, cnt |-> 0], tInact |-> [run |-> TRUE, el |-> 0, occ |-> FALSE, cnt |-> 0], resp |-> <<>>, meta |-> TRUE, segs |-> <<>>, rsize |-> 0, eofrx |-> TRUE, fsize |-> 3, ckset |-> TRUE, fopen |-> FALSE, fin |-> [cond |-> "NoError", set |-> FALSE, loc |-> FALSE, flag |-> FALSE, deliv |-> "Incomplete", fstat |-> "Unreported", resp |-> <<>>], nakMark |-> 0, delayed |-> <<>>, tNak |-> [run |-> TRUE, el |-> 0, occ |-> FALSE, cnt |-> 0]])
        /\
        c2r = (<<[k |-> "Data", len |-> 2, ok |-> TRUE, hdr |-> TRUE, dir |-> "c2r", off |-> 0, inside |-> TRUE, fits |-> TRUE], [k |-> "Data", len |-> 1, ok |-> TRUE, hdr |-> TRUE, dir |-> "c2r", off |-> 2, inside |-> TRUE, fits |-> TRUE]>>)
        /\
        hist = (<<[a |-> "S_Send", i |-> 0, d |-> 0, ch |-> "", c |-> ""], [a |-> "S_Send", i |-> 0, d |-> 0, ch |-> "", c |-> ""], [a |-> "S_Send", i |-> 0, d |-> 0, ch |-> "", c |-> ""], [a |-> "S_Send", i |-> 0, d |-> 0, ch |-> "", c |-> ""], [a |-> "Deliver", i |-> 4, d |-> 0, ch |-> "c2r", c |-> ""], [a |-> "R_Send", i |-> 0, d |-> 0, ch |-> "", c |-> ""], [a |-> "Deliver", i |-> 1, d |-> 0, ch |-> "c2r", c |-> ""], [a |-> "R_Send", i |-> 0, d |-> 0, ch |-> "", c |-> ""]>>)
        /\
        s = ([alive |-> TRUE, st |-> "Eof", cond |-> "NoError", txs |-> "Active", status |-> "Undefined", deliv |-> "Incomplete", fstat |-> "Unreported", naks |-> <<>>, progress |-> 3, rfs |-> 0, eof |-> [cond |-> "NoError", set |-> TRUE, loc |-> FALSE, flag |-> FALSE, size |-> 3, ckok |-> TRUE], ack |-> FALSE, ackcond |-> "NoError", ackstatus |-> "Undefined", prompt |-> "None", eofInd |-> FALSE, cursor |-> 3, tAck |-> [run |-> TRUE, el |-> 0, occ |-> FALSE, cnt |-> 0], tInact |-> [run |-> FALSE, el |-> 0, occ |-> FALSE, cnt |-> 0]])
        /\
        c2s = (<<[k |-> "ACK", cond |-> "NoError", status |-> "Undefined", hdr |-> TRUE, dir |-> "c2s", of |-> "EOF", sub |-> 0], [s |-> 0, e |-> 0, k |-> "NAK", hdr |-> TRUE, dir |-> "c2s", fits |-> TRUE, reqs |-> <<<<0, 0>>>>]>>)
        /\
        w = ([dest |-> [st |-> "absent", len |-> 0], tree |-> <<>>])
        /\
        viol = ({<<"C08:NakWellFormed", "">>})
        /\
        nf = (1)
        /\
        rinc = (1)
        /\
        used = ({})
        /\
        o = ([rinc |-> 1, tree |-> <<>>, born |-> [S |-> TRUE, R |-> TRUE], ended |-> [S |-> FALSE, R |-> FALSE], idle |-> [S |-> 0, R |-> 0], held |-> {}, susp |-> [S |-> FALSE, R |-> FALSE], excused |-> [S |-> FALSE, R |-> FALSE], cancel |-> [S |-> FALSE, R |-> FALSE], cancelEff |-> FALSE, sinceCancel |-> [S |-> 0, R |-> 0], repCancel |-> [S |-> FALSE, R |-> FALSE], ncancel |-> 0, nsusp |-> 0, suspTime |-> 0, nfaults |-> 1, adversary |-> FALSE, rxMeta |-> TRUE, rxEof |-> TRUE, everFault |-> [S |-> FALSE, R |-> FALSE], succ |-> [S |-> FALSE, R |-> FALSE], delivered |-> FALSE, destAt |-> [st |-> "absent", len |-> 0], fp |-> 3, pend |-> {}, nEof |-> 1, nMeta |-> 1, sprog |-> 3, round |-> [reqs |-> {}, open |-> TRUE, marker |-> TRUE], promptNak |-> FALSE, finSent |-> FALSE, tx |-> [eof |-> [n |-> 1, since |-> 0, gapok |-> TRUE, mark |-> 0], fin |-> [n |-> 0, since |-> 0, gapok |-> TRUE, mark |-> 0], nak |-> [n |-> 1, since |-> 0, gapok |-> TRUE, mark |-> 0]], finR |-> [cond |-> "NoError", set |-> FALSE, deliv |-> "Incomplete", fstat |-> "Unreported", resp |-> <<>>], finPdu |-> [cond |-> "NoError", set |-> FALSE, deliv |-> "Incomplete", fstat |-> "Unreported", resp |-> <<>>]])
    )
----

_init ==
    /\ rinc = _TETrace[1].rinc
    /\ o = _TETrace[1].o
    /\ r = _TETrace[1].r
    /\ s = _TETrace[1].s
    /\ w = _TETrace[1].w
    /\ c2r = _TETrace[1].c2r
    /\ c2s = _TETrace[1].c2s
    /\ ev = _TETrace[1].ev
    /\ viol = _TETrace[1].viol
    /\ nf = _TETrace[1].nf
    /\ used = _TETrace[1].used
    /\ hist = _TETrace[1].hist
----

_next ==
    /\ \E i,j \in DOMAIN _TETrace:
        /\ \/ /\ j = i + 1
              /\ i = TLCGet("level")
        /\ rinc  = _TETrace[i].rinc
        /\ rinc' = _TETrace[j].rinc
        /\ o  = _TETrace[i].o
        /\ o' = _TETrace[j].o
        /\ r  = _TETrace[i].r
        /\ r' = _TETrace[j].r
        /\ s  = _TETrace[i].s
        /\ s' = _TETrace[j].s
        /\ w  = _TETrace[i].w
        /\ w' = _TETrace[j].w
        /\ c2r  = _TETrace[i].c2r
        /\ c2r' = _TETrace[j].c2r
        /\ c2s  = _TETrace[i].c2s
        /\ c2s' = _TETrace[j].c2s
        /\ ev  = _TETrace[i].ev
        /\ ev' = _TETrace[j].ev
        /\ viol  = _TETrace[i].viol
        /\ viol' = _TETrace[j].viol
        /\ nf  = _TETrace[i].nf
        /\ nf' = _TETrace[j].nf
        /\ used  = _TETrace[i].used
        /\ used' = _TETrace[j].used
        /\ hist  = _TETrace[i].hist
        /\ hist' = _TETrace[j].hist

\* Uncomment the ASSUME below to write the states of the error trace
\* to the given file in Json format. Note that you can pass any tuple
\* to `JsonSerialize`. For example, a sub-sequence of _TETrace.
    \* ASSUME
    \*     LET J == INSTANCE Json
    \*         IN J!JsonSerialize("MC_Ack_TTrace_1790040226.json", _TETrace)

=============================================================================

 Note that you can extract this module `MC_Ack_TEExpression`
  to a dedicated file to reuse `expression` (the module in the 
  dedicated `MC_Ack_TEExpression.tla` file takes precedence 
  over the module `MC_Ack_TEExpression` below).

---- MODULE MC_Ack_TEExpression ----
EXTENDS MC_Ack, Sequences, TLCExt, Toolbox, Naturals, TLC

expression == 
    [
        \* To hide variables of the `MC_Ack` spec from the error trace,
        \* remove the variables below.  The trace will be written in the order
        \* of the fields of this record.
        rinc |-> rinc
        ,o |-> o
        ,r |-> r
        ,s |-> s
        ,w |-> w
        ,c2r |-> c2r
        ,c2s |-> c2s
        ,ev |-> ev
        ,viol |-> viol
        ,nf |-> nf
        ,used |-> used
        ,hist |-> hist
        
        \* Put additional constant-, state-, and action-level expressions here:
        \* ,_stateNumber |-> _TEPosition
        \* ,_rincUnchanged |-> rinc = rinc'
        
        \* Format the `rinc` variable as Json value.
        \* ,_rincJson |->
        \*     LET J == INSTANCE Json
        \*     IN J!ToJson(rinc)
        
        \* Lastly, you may build expressions over arbitrary sets of states by
        \* leveraging the _TETrace operator.  For example, this is how to
        \* count the number of times a spec variable changed up to the current
        \* state in the trace.
        \* ,_rincModCount |->
        \*     LET F[s \in DOMAIN _TETrace] ==
        \*         IF s = 1 THEN 0
        \*         ELSE IF _TETrace[s].rinc # _TETrace[s-1].rinc
        \*             THEN 1 + F[s-1] ELSE F[s-1]
        \*     IN F[_TEPosition - 1]
    ]

=============================================================================



Parsing and semantic processing can take forever if the trace below is long.
 In this case, it is advised to uncomment the module below to deserialize the
 trace from a generated binary file.

\*
\*---- MODULE MC_Ack_TETrace ----
\*EXTENDS MC_Ack, IOUtils, TLC
\*
\*trace == IODeserialize("MC_Ack_TTrace_1790040226.bin", TRUE)
\*
\*=============================================================================
\*

---- MODULE MC_Ack_TETrace ----
EXTENDS MC_Ack, TLC

trace == 
    <<
    ([ev |-> [a |-> "Init"],r |-> [alive |-> FALSE],c2r |-> <<>>,hist |-> <<>>,s |-> [alive |-> TRUE, st |-> "Meta", cond |-> "NoError", txs |-> "Active", status |-> "Undefined", deliv |-> "Incomplete", fstat |-> "Unreported", naks |-> <<>>, progress |-> 0, rfs |-> 0, eof |-> [cond |-> "NoError", set |-> FALSE, loc |-> FALSE, flag |-> FALSE, size |-> 0, ckok |-> TRUE], ack |-> FALSE, ackcond |-> "NoError", ackstatus |-> "Undefined", prompt |-> "None", eofInd |-> TRUE, cursor |-> 0, tAck |-> [run |-> FALSE, el |-> 0, occ |-> FALSE, cnt |-> 0], tInact |-> [run |-> FALSE, el |-> 0, occ |-> FALSE, cnt |-> 0]],c2s |-> <<>>,w |-> [dest |-> [st |-> "absent", len |-> 0], tree |-> <<>>],viol |-> {},nf |-> 0,rinc |-> 0,used |-> {},o |-> [rinc |-> 0, tree |-> <<>>, born |-> [S |-> TRUE, R |-> FALSE], ended |-> [S |-> FALSE, R |-> FALSE], idle |-> [S |-> 0, R |-> 0], held |-> {}, susp |-> [S |-> FALSE, R |-> FALSE], excused |-> [S |-> FALSE, R |-> FALSE], cancel |-> [S |-> FALSE, R |-> FALSE], cancelEff |-> FALSE, sinceCancel |-> [S |-> 0, R |-> 0], repCancel |-> [S |-> FALSE, R |-> FALSE], ncancel |-> 0, nsusp |-> 0, suspTime |-> 0, nfaults |-> 0, adversary |-> FALSE, rxMeta |-> FALSE, rxEof |-> FALSE, everFault |-> [S |-> FALSE, R |-> FALSE], succ |-> [S |-> FALSE, R |-> FALSE], delivered |-> FALSE, destAt |-> [st |-> "absent", len |-> 0], fp |-> 0, pend |-> {}, nEof |-> 0, nMeta |-> 0, sprog |-> 0, round |-> [reqs |-> {}, open |-> FALSE, marker |-> FALSE], promptNak |-> FALSE, finSent |-> FALSE, tx |-> [eof |-> [n |-> 0, since |-> 0, gapok |-> TRUE, mark |-> 0], fin |-> [n |-> 0, since |-> 0, gapok |-> TRUE, mark |-> 0], nak |-> [n |-> 0, since |-> 0, gapok |-> TRUE, mark |-> 0]], finR |-> [cond |-> "NoError", set |-> FALSE, deliv |-> "Incomplete", fstat |-> "Unreported", resp |-> <<>>], finPdu |-> [cond |-> "NoError", set |-> FALSE, deliv |-> "Incomplete", fstat |-> "Unreported", resp |-> <<>>]]]),
    ([ev |-> [rinc |-> 0, a |-> "S_Send", S |-> [until |-> -1, can |-> TRUE], out |-> <<[closure |-> FALSE, k |-> "Metadata", size |-> 3, nreqs |-> 0, ok |-> TRUE, hdr |-> TRUE, dir |-> "c2r"]>>, d |-> 0, ch |-> "", idx |-> 0, c |-> "", res |-> "ok", ind |-> <<>>, pin |-> [k |-> "None"], dest |-> [st |-> "absent", len |-> 0], tree |-> <<>>, salive |-> TRUE, ralive |-> FALSE, nc2r |-> 1, nc2s |-> 0, R |-> [until |-> -1, can |-> FALSE]],r |-> [alive |-> FALSE],c2r |-> <<[closure |-> FALSE, k |-> "Metadata", size |-> 3, nreqs |-> 0, ok |-> TRUE, hdr |-> TRUE, dir |-> "c2r"]>>,hist |-> <<[a |-> "S_Send", i |-> 0, d |-> 0, ch |-> "", c |-> ""]>>,s |-> [alive |-> TRUE, st |-> "Data", cond |-> "NoError", txs |-> "Active", status |-> "Undefined", deliv |-> "Incomplete", fstat |-> "Unreported", naks |-> <<>>, progress |-> 0, rfs |-> 0, eof |-> [cond |-> "NoError", set |-> FALSE, loc |-> FALSE, flag |-> FALSE, size |-> 0, ckok |-> TRUE], ack |-> FALSE, ackcond |-> "NoError", ackstatus |-> "Undefined", prompt |-> "None", eofInd |-> TRUE, cursor |-> 0, tAck |-> [run |-> FALSE, el |-> 0, occ |-> FALSE, cnt |-> 0], tInact |-> [run |-> FALSE, el |-> 0, occ |-> FALSE, cnt |-> 0]],c2s |-> <<>>,w |-> [dest |-> [st |-> "absent", len |-> 0], tree |-> <<>>],viol |-> {},nf |-> 0,rinc |-> 0,used |-> {},o |-> [rinc |-> 0, tree |-> <<>>, born |-> [S |-> TRUE, R |-> FALSE], ended |-> [S |-> FALSE, R |-> FALSE], idle |-> [S |-> 0, R |-> 0], held |-> {}, susp |-> [S |-> FALSE, R |-> FALSE], excused |-> [S |-> FALSE, R |-> FALSE], cancel |-> [S |-> FALSE, R |-> FALSE], cancelEff |-> FALSE, sinceCancel |-> [S |-> 0, R |-> 0], repCancel |-> [S |-> FALSE, R |-> FALSE], ncancel |-> 0, nsusp |-> 0, suspTime |-> 0, nfaults |-> 0, adversary |-> FALSE, rxMeta |-> FALSE, rxEof |-> FALSE, everFault |-> [S |-> FALSE, R |-> FALSE], succ |-> [S |-> FALSE, R |-> FALSE], delivered |-> FALSE, destAt |-> [st |-> "absent", len |-> 0], fp |-> 0, pend |-> {}, nEof |-> 0, nMeta |-> 1, sprog |-> 0, round |-> [reqs |-> {}, open |-> FALSE, marker |-> FALSE], promptNak |-> FALSE, finSent |-> FALSE, tx |-> [eof |-> [n |-> 0, since |-> 0, gapok |-> TRUE, mark |-> 0], fin |-> [n |-> 0, since |-> 0, gapok |-> TRUE, mark |-> 0], nak |-> [n |-> 0, since |-> 0, gapok |-> TRUE, mark |-> 0]], finR |-> [cond |-> "NoError", set |-> FALSE, deliv |-> "Incomplete", fstat |-> "Unreported", resp |-> <<>>], finPdu |-> [cond |-> "NoError", set |-> FALSE, deliv |-> "Incomplete", fstat |-> "Unreported", resp |-> <<>>]]]),
    ([ev |-> [rinc |-> 0, a |-> "S_Send", S |-> [until |-> -1, can |-> TRUE], out |-> <<[k |-> "Data", len |-> 2, ok |-> TRUE, hdr |-> TRUE, dir |-> "c2r", off |-> 0, inside |-> TRUE, fits |-> TRUE]>>, d |-> 0, ch |-> "", idx |-> 0, c |-> "", res |-> "ok", ind |-> <<>>, pin |-> [k |-> "None"], dest |-> [st |-> "absent", len |-> 0], tree |-> <<>>, salive |-> TRUE, ralive |-> FALSE, nc2r |-> 2, nc2s |-> 0, R |-> [until |-> -1, can |-> FALSE]],r |-> [alive |-> FALSE],c2r |-> <<[closure |-> FALSE, k |-> "Metadata", size |-> 3, nreqs |-> 0, ok |-> TRUE, hdr |-> TRUE, dir |-> "c2r"], [k |-> "Data", len |-> 2, ok |-> TRUE, hdr |-> TRUE, dir |-> "c2r", off |-> 0, inside |-> TRUE, fits |-> TRUE]>>,hist |-> <<[a |-> "S_Send", i |-> 0, d |-> 0, ch |-> "", c |-> ""], [a |-> "S_Send", i |-> 0, d |-> 0, ch |-> "", c |-> ""]>>,s |-> [alive |-> TRUE, st |-> "Data", cond |-> "NoError", txs |-> "Active", status |-> "Undefined", deliv |-> "Incomplete", fstat |-> "Unreported", naks |-> <<>>, progress |-> 2, rfs |-> 0, eof |-> [cond |-> "NoError", set |-> FALSE, loc |-> FALSE, flag |-> FALSE, size |-> 0, ckok |-> TRUE], ack |-> FALSE, ackcond |-> "NoError", ackstatus |-> "Undefined", prompt |-> "None", eofInd |-> TRUE, cursor |-> 2, tAck |-> [run |-> FALSE, el |-> 0, occ |-> FALSE, cnt |-> 0], tInact |-> [run |-> FALSE, el |-> 0, occ |-> FALSE, cnt |-> 0]],c2s |-> <<>>,w |-> [dest |-> [st |-> "absent", len |-> 0], tree |-> <<>>],viol |-> {},nf |-> 0,rinc |-> 0,used |-> {},o |-> [rinc |-> 0, tree |-> <<>>, born |-> [S |-> TRUE, R |-> FALSE], ended |-> [S |-> FALSE, R |-> FALSE], idle |-> [S |-> 0, R |-> 0], held |-> {}, susp |-> [S |-> FALSE, R |-> FALSE], excused |-> [S |-> FALSE, R |-> FALSE], cancel |-> [S |-> FALSE, R |-> FALSE], cancelEff |-> FALSE, sinceCancel |-> [S |-> 0, R |-> 0], repCancel |-> [S |-> FALSE, R |-> FALSE], ncancel |-> 0, nsusp |-> 0, suspTime |-> 0, nfaults |-> 0, adversary |-> FALSE, rxMeta |-> FALSE, rxEof |-> FALSE, everFault |-> [S |-> FALSE, R |-> FALSE], succ |-> [S |-> FALSE, R |-> FALSE], delivered |-> FALSE, destAt |-> [st |-> "absent", len |-> 0], fp |-> 2, pend |-> {}, nEof |-> 0, nMeta |-> 1, sprog |-> 2, round |-> [reqs |-> {}, open |-> FALSE, marker |-> FALSE], promptNak |-> FALSE, finSent |-> FALSE, tx |-> [eof |-> [n |-> 0, since |-> 0, gapok |-> TRUE, mark |-> 0], fin |-> [n |-> 0, since |-> 0, gapok |-> TRUE, mark |-> 0], nak |-> [n |-> 0, since |-> 0, gapok |-> TRUE, mark |-> 0]], finR |-> [cond |-> "NoError", set |-> FALSE, deliv |-> "Incomplete", fstat |-> "Unreported", resp |-> <<>>], finPdu |-> [cond |-> "NoError", set |-> FALSE, deliv |-> "Incomplete", fstat |-> "Unreported", resp |-> <<>>]]]),
    ([ev |-> [rinc |-> 0, a |-> "S_Send", S |-> [until |-> -1, can |-> TRUE], out |-> <<[k |-> "Data", len |-> 1, ok |-> TRUE, hdr |-> TRUE, dir |-> "c2r", off |-> 2, inside |-> TRUE, fits |-> TRUE]>>, d |-> 0, ch |-> "", idx |-> 0, c |-> "", res |-> "ok", ind |-> <<>>, pin |-> [k |-> "None"], dest |-> [st |-> "absent", len |-> 0], tree |-> <<>>, salive |-> TRUE, ralive |-> FALSE, nc2r |-> 3, nc2s |-> 0, R |-> [until |-> -1, can |-> FALSE]],r |-> [alive |-> FALSE],c2r |-> <<[closure |-> FALSE, k |-> "Metadata", size |-> 3, nreqs |-> 0, ok |-> TRUE, hdr |-> TRUE, dir |-> "c2r"], [k |-> "Data", len |-> 2, ok |-> TRUE, hdr |-> TRUE, dir |-> "c2r", off |-> 0, inside |-> TRUE, fits |-> TRUE], [k |-> "Data", len |-> 1, ok |-> TRUE, hdr |-> TRUE, dir |-> "c2r", off |-> 2, inside |-> TRUE, fits |-> TRUE]>>,hist |-> <<[a |-> "S_Send", i |-> 0, d |-> 0, ch |-> "", c |-> ""], [a |-> "S_Send", i |-> 0, d |-> 0, ch |-> "", c |-> ""], [a |-> "S_Send", i |-> 0, d |-> 0, ch |-> "", c |-> ""]>>,s |-> [alive |-> TRUE, st |-> "Eof", cond |-> "NoError", txs |-> "Active", status |-> "Undefined", deliv |-> "Incomplete", fstat |-> "Unreported", naks |-> <<>>, progress |-> 3, rfs |-> 0, eof |-> [cond |-> "NoError", set |-> TRUE, loc |-> FALSE, flag |-> TRUE, size |-> 3, ckok |-> TRUE], ack |-> FALSE, ackcond |-> "NoError", ackstatus |-> "Undefined", prompt |-> "None", eofInd |-> TRUE, cursor |-> 3, tAck |-> [run |-> FALSE, el |-> 0, occ |-> FALSE, cnt |-> 0], tInact |-> [run |-> FALSE, el |-> 0, occ |-> FALSE, cnt |-> 0]],c2s |-> <<>>,w |-> [dest |-> [st |-> "absent", len |-> 0], tree |-> <<>>],viol |-> {},nf |-> 0,rinc |-> 0,used |-> {},o |-> [rinc |-> 0, tree |-> <<>>, born |-> [S |-> TRUE, R |-> FALSE], ended |-> [S |-> FALSE, R |-> FALSE], idle |-> [S |-> 0, R |-> 0], held |-> {}, susp |-> [S |-> FALSE, R |-> FALSE], excused |-> [S |-> FALSE, R |-> FALSE], cancel |-> [S |-> FALSE, R |-> FALSE], cancelEff |-> FALSE, sinceCancel |-> [S |-> 0, R |-> 0], repCancel |-> [S |-> FALSE, R |-> FALSE], ncancel |-> 0, nsusp |-> 0, suspTime |-> 0, nfaults |-> 0, adversary |-> FALSE, rxMeta |-> FALSE, rxEof |-> FALSE, everFault |-> [S |-> FALSE, R |-> FALSE], succ |-> [S |-> FALSE, R |-> FALSE], delivered |-> FALSE, destAt |-> [st |-> "absent", len |-> 0], fp |-> 3, pend |-> {}, nEof |-> 0, nMeta |-> 1, sprog |-> 3, round |-> [reqs |-> {}, open |-> FALSE, marker |-> FALSE], promptNak |-> FALSE, finSent |-> FALSE, tx |-> [eof |-> [n |-> 0, since |-> 0, gapok |-> TRUE, mark |-> 0], fin |-> [n |-> 0, since |-> 0, gapok |-> TRUE, mark |-> 0], nak |-> [n |-> 0, since |-> 0, gapok |-> TRUE, mark |-> 0]], finR |-> [cond |-> "NoError", set |-> FALSE, deliv |-> "Incomplete", fstat |-> "Unreported", resp |-> <<>>], finPdu |-> [cond |-> "NoError", set |-> FALSE, deliv |-> "Incomplete", fstat |-> "Unreported", resp |-> <<>>]]]),
    ([ev |-> [rinc |-> 0, a |-> "S_Send", S |-> [until |-> 2, can |-> FALSE], out |-> <<[k |-> "EOF", cond |-> "NoError", loc |-> FALSE, size |-> 3, ckok |-> TRUE, ok |-> TRUE, hdr |-> TRUE, dir |-> "c2r"]>>, d |-> 0, ch |-> "", idx |-> 0, c |-> "", res |-> "ok", ind |-> <<[e |-> "S", k |-> "EoFSent"]>>, pin |-> [k |-> "None"], dest |-> [st |-> "absent", len |-> 0], tree |-> <<>>, salive |-> TRUE, ralive |-> FALSE, nc2r |-> 4, nc2s |-> 0, R |-> [until |-> -1, can |-> FALSE]],r |-> [alive |-> FALSE],c2r |-> <<[closure |-> FALSE, k |-> "Metadata", size |-> 3, nreqs |-> 0, ok |-> TRUE, hdr |-> TRUE, dir |-> "c2r"], [k |-> "Data", len |-> 2, ok |-> TRUE, hdr |-> TRUE, dir |-> "c2r", off |-> 0, inside |-> TRUE, fits |-> TRUE], [k |-> "Data", len |-> 1, ok |-> TRUE, hdr |-> TRUE, dir |-> "c2r", off |-> 2, inside |-> TRUE, fits |-> TRUE], [k |-> "EOF", cond |-> "NoError", loc |-> FALSE, size |-> 3, ckok |-> TRUE, ok |-> TRUE, hdr |-> TRUE, dir |-> "c2r"]>>,hist |-> <<[a |-> "S_Send", i |-> 0, d |-> 0, ch |-> "", c |-> ""], [a |-> "S_Send", i |-> 0, d |-> 0, ch |-> "", c |-> ""], [a |-> "S_Send", i |-> 0, d |-> 0, ch |-> "", c |-> ""], [a |-> "S_Send", i |-> 0, d |-> 0, ch |-> "", c |-> ""]>>,s |-> [alive |-> TRUE, st |-> "Eof", cond |-> "NoError", txs |-> "Active", status |-> "Undefined", deliv |-> "Incomplete", fstat |-> "Unreported", naks |-> <<>>, progress |-> 3, rfs |-> 0, eof |-> [cond |-> "NoError", set |-> TRUE, loc |-> FALSE, flag |-> FALSE, size |-> 3, ckok |-> TRUE], ack |-> FALSE, ackcond |-> "NoError", ackstatus |-> "Undefined", prompt |-> "None", eofInd |-> FALSE, cursor |-> 3, tAck |-> [run |-> TRUE, el |-> 0, occ |-> FALSE, cnt |-> 0], tInact |-> [run |-> FALSE, el |-> 0, occ |-> FALSE, cnt |-> 0]],c2s |-> <<>>,w |-> [dest |-> [st |-> "absent", len |-> 0], tree |-> <<>>],viol |-> {},nf |-> 0,rinc |-> 0,used |-> {},o |-> [rinc |-> 0, tree |-> <<>>, born |-> [S |-> TRUE, R |-> FALSE], ended |-> [S |-> FALSE, R |-> FALSE], idle |-> [S |-> 0, R |-> 0], held |-> {}, susp |-> [S |-> FALSE, R |-> FALSE], excused |-> [S |-> FALSE, R |-> FALSE], cancel |-> [S |-> FALSE, R |-> FALSE], cancelEff |-> FALSE, sinceCancel |-> [S |-> 0, R |-> 0], repCancel |-> [S |-> FALSE, R |-> FALSE], ncancel |-> 0, nsusp |-> 0, suspTime |-> 0, nfaults |-> 0, adversary |-> FALSE, rxMeta |-> FALSE, rxEof |-> FALSE, everFault |-> [S |-> FALSE, R |-> FALSE], succ |-> [S |-> FALSE, R |-> FALSE], delivered |-> FALSE, destAt |-> [st |-> "absent", len |-> 0], fp |-> 3, pend |-> {}, nEof |-> 1, nMeta |-> 1, sprog |-> 3, round |-> [reqs |-> {}, open |-> FALSE, marker |-> FALSE], promptNak |-> FALSE, finSent |-> FALSE, tx |-> [eof |-> [n |-> 1, since |-> 0, gapok |-> TRUE, mark |-> 0], fin |-> [n |-> 0, since |-> 0, gapok |-> TRUE, mark |-> 0], nak |-> [n |-> 0, since |-> 0, gapok |-> TRUE, mark |-> 0]], finR |-> [cond |-> "NoError", set |-> FALSE, deliv |-> "Incomplete", fstat |-> "Unreported", resp |-> <<>>], finPdu |-> [cond |-> "NoError", set |-> FALSE, deliv |-> "Incomplete", fstat |-> "Unreported", resp |-> <<>>]]]),
    ([ev |-> [rinc |-> 1, a |-> "Deliver", S |-> [until |-> 2, can |-> FALSE], out |-> <<>>, d |-> 0, ch |-> "c2r", idx |-> 4, c |-> "", res |-> "ok", ind |-> <<[e |-> "R", state |-> "Active", k |-> "Report", cond |-> "NoError", status |-> "Undefined"], [e |-> "R", k |-> "EoFRecv"]>>, pin |-> [k |-> "EOF", cond |-> "NoError", loc |-> FALSE, size |-> 3, ckok |-> TRUE, ok |-> TRUE, hdr |-> TRUE, dir |-> "c2r"], dest |-> [st |-> "absent", len |-> 0], tree |-> <<>>, salive |-> TRUE, ralive |-> TRUE, nc2r |-> 3, nc2s |-> 0, R |-> [until |-> 4, can |-> TRUE]],r |-> [closure |-> FALSE, alive |-> TRUE, st |-> "Recv", cond |-> "NoError", ckok |-> TRUE, txs |-> "Active", status |-> "Undefined", deliv |-> "Incomplete", fstat |-> "Unreported", naks |-> <<<<0, 0>>, <<0, 3>>>>, ack |-> TRUE, ackcond |-> "NoError", ackstatus |-> "Undefined", prompt |-> "None", tAck |-> [run |-> FALSE, el |-> 0, occ |-> FALSE, cnt |-> 0], tInact |-> [run |-> TRUE, el |-> 0, occ |-> FALSE, cnt |-> 0], resp |-> <<>>, meta |-> FALSE, segs |-> <<>>, rsize |-> 0, eofrx |-> TRUE, fsize |-> 3, ckset |-> TRUE, fopen |-> FALSE, fin |-> [cond |-> "NoError", set |-> FALSE, loc |-> FALSE, flag |-> FALSE, deliv |-> "Incomplete", fstat |-> "Unreported", resp |-> <<>>], nakMark |-> 0, delayed |-> <<>>, tNak |-> [run |-> FALSE, el |-> 0, occ |-> FALSE, cnt |-> 0]],c2r |-> <<[closure |-> FALSE, k |-> "Metadata", size |-> 3, nreqs |-> 0, ok |-> TRUE, hdr |-> TRUE, dir |-> "c2r"], [k |-> "Data", len |-> 2, ok |-> TRUE, hdr |-> TRUE, dir |-> "c2r", off |-> 0, inside |-> TRUE, fits |-> TRUE], [k |-> "Data", len |-> 1, ok |-> TRUE, hdr |-> TRUE, dir |-> "c2r", off |-> 2, inside |-> TRUE, fits |-> TRUE]>>,hist |-> <<[a |-> "S_Send", i |-> 0, d |-> 0, ch |-> "", c |-> ""], [a |-> "S_Send", i |-> 0, d |-> 0, ch |-> "", c |-> ""], [a |-> "S_Send", i |-> 0, d |-> 0, ch |-> "", c |-> ""], [a |-> "S_Send", i |-> 0, d |-> 0, ch |-> "", c |-> ""], [a |-> "Deliver", i |-> 4, d |-> 0, ch |-> "c2r", c |-> ""]>>,s |-> [alive |-> TRUE, st |-> "Eof", cond |-> "NoError", txs |-> "Active", status |-> "Undefined", deliv |-> "Incomplete", fstat |-> "Unreported", naks |-> <<>>, progress |-> 3, rfs |-> 0, eof |-> [cond |-> "NoError", set |-> TRUE, loc |-> FALSE, flag |-> FALSE, size |-> 3, ckok |-> TRUE], ack |-> FALSE, ackcond |-> "NoError", ackstatus |-> "Undefined", prompt |-> "None", eofInd |-> FALSE, cursor |-> 3, tAck |-> [run |-> TRUE, el |-> 0, occ |-> FALSE, cnt |-> 0], tInact |-> [run |-> FALSE, el |-> 0, occ |-> FALSE, cnt |-> 0]],c2s |-> <<>>,w |-> [dest |-> [st |-> "absent", len |-> 0], tree |-> <<>>],viol |-> {},nf |-> 1,rinc |-> 1,used |-> {},o |-> [rinc |-> 1, tree |-> <<>>, born |-> [S |-> TRUE, R |-> TRUE], ended |-> [S |-> FALSE, R |-> FALSE], idle |-> [S |-> 0, R |-> 0], held |-> {}, susp |-> [S |-> FALSE, R |-> FALSE], excused |-> [S |-> FALSE, R |-> FALSE], cancel |-> [S |-> FALSE, R |-> FALSE], cancelEff |-> FALSE, sinceCancel |-> [S |-> 0, R |-> 0], repCancel |-> [S |-> FALSE, R |-> FALSE], ncancel |-> 0, nsusp |-> 0, suspTime |-> 0, nfaults |-> 1, adversary |-> FALSE, rxMeta |-> FALSE, rxEof |-> TRUE, everFault |-> [S |-> FALSE, R |-> FALSE], succ |-> [S |-> FALSE, R |-> FALSE], delivered |-> FALSE, destAt |-> [st |-> "absent", len |-> 0], fp |-> 3, pend |-> {}, nEof |-> 1, nMeta |-> 1, sprog |-> 3, round |-> [reqs |-> {}, open |-> FALSE, marker |-> FALSE], promptNak |-> FALSE, finSent |-> FALSE, tx |-> [eof |-> [n |-> 1, since |-> 0, gapok |-> TRUE, mark |-> 0], fin |-> [n |-> 0, since |-> 0, gapok |-> TRUE, mark |-> 0], nak |-> [n |-> 0, since |-> 0, gapok |-> TRUE, mark |-> 0]], finR |-> [cond |-> "NoError", set |-> FALSE, deliv |-> "Incomplete", fstat |-> "Unreported", resp |-> <<>>], finPdu |-> [cond |-> "NoError", set |-> FALSE, deliv |-> "Incomplete", fstat |-> "Unreported", resp |-> <<>>]]]),
    ([ev |-> [rinc |-> 1, a |-> "R_Send", S |-> [until |-> 2, can |-> FALSE], out |-> <<[k |-> "ACK", cond |-> "NoError", status |-> "Undefined", hdr |-> TRUE, dir |-> "c2s", of |-> "EOF", sub |-> 0]>>, d |-> 0, ch |-> "", idx |-> 0, c |-> "", res |-> "ok", ind |-> <<>>, pin |-> [k |-> "None"], dest |-> [st |-> "absent", len |-> 0], tree |-> <<>>, salive |-> TRUE, ralive |-> TRUE, nc2r |-> 3, nc2s |-> 1, R |-> [until |-> 4, can |-> TRUE]],r |-> [closure |-> FALSE, alive |-> TRUE, st |-> "Recv", cond |-> "NoError", ckok |-> TRUE, txs |-> "Active", status |-> "Undefined", deliv |-> "Incomplete", fstat |-> "Unreported", naks |-> <<<<0, 0>>, <<0, 3>>>>, ack |-> FALSE, ackcond |-> "NoError", ackstatus |-> "Undefined", prompt |-> "None", tAck |-> [run |-> FALSE, el |-> 0, occ |-> FALSE, cnt |-> 0], tInact |-> [run |-> TRUE, el |-> 0, occ |-> FALSE, cnt |-> 0], resp |-> <<>>, meta |-> FALSE, segs |-> <<>>, rsize |-> 0, eofrx |-> TRUE, fsize |-> 3, ckset |-> TRUE, fopen |-> FALSE, fin |-> [cond |-> "NoError", set |-> FALSE, loc |-> FALSE, flag |-> FALSE, deliv |-> "Incomplete", fstat |-> "Unreported", resp |-> <<>>], nakMark |-> 0, delayed |-> <<>>, tNak |-> [run |-> FALSE, el |-> 0, occ |-> FALSE, cnt |-> 0]],c2r |-> <<[closure |-> FALSE, k |-> "Metadata", size |-> 3, nreqs |-> 0, ok |-> TRUE, hdr |-> TRUE, dir |-> "c2r"], [k |-> "Data", len |-> 2, ok |-> TRUE, hdr |-> TRUE, dir |-> "c2r", off |-> 0, inside |-> TRUE, fits |-> TRUE], [k |-> "Data", len |-> 1, ok |-> TRUE, hdr |-> TRUE, dir |-> "c2r", off |-> 2, inside |-> TRUE, fits |-> TRUE]>>,hist |-> <<[a |-> "S_Send", i |-> 0, d |-> 0, ch |-> "", c |-> ""], [a |-> "S_Send", i |-> 0, d |-> 0, ch |-> "", c |-> ""], [a |-> "S_Send", i |-> 0, d |-> 0, ch |-> "", c |-> ""], [a |-> "S_Send", i |-> 0, d |-> 0, ch |-> "", c |-> ""], [a |-> "Deliver", i |-> 4, d |-> 0, ch |-> "c2r", c |-> ""], [a |-> "R_Send", i |-> 0, d |-> 0, ch |-> "", c |-> ""]>>,s |-> [alive |-> TRUE, st |-> "Eof", cond |-> "NoError", txs |-> "Active", status |-> "Undefined", deliv |-> "Incomplete", fstat |-> "Unreported", naks |-> <<>>, progress |-> 3, rfs |-> 0, eof |-> [cond |-> "NoError", set |-> TRUE, loc |-> FALSE, flag |-> FALSE, size |-> 3, ckok |-> TRUE], ack |-> FALSE, ackcond |-> "NoError", ackstatus |-> "Undefined", prompt |-> "None", eofInd |-> FALSE, cursor |-> 3, tAck |-> [run |-> TRUE, el |-> 0, occ |-> FALSE, cnt |-> 0], tInact |-> [run |-> FALSE, el |-> 0, occ |-> FALSE, cnt |-> 0]],c2s |-> <<[k |-> "ACK", cond |-> "NoError", status |-> "Undefined", hdr |-> TRUE, dir |-> "c2s", of |-> "EOF", sub |-> 0]>>,w |-> [dest |-> [st |-> "absent", len |-> 0], tree |-> <<>>],viol |-> {},nf |-> 1,rinc |-> 1,used |-> {},o |-> [rinc |-> 1, tree |-> <<>>, born |-> [S |-> TRUE, R |-> TRUE], ended |-> [S |-> FALSE, R |-> FALSE], idle |-> [S |-> 0, R |-> 0], held |-> {}, susp |-> [S |-> FALSE, R |-> FALSE], excused |-> [S |-> FALSE, R |-> FALSE], cancel |-> [S |-> FALSE, R |-> FALSE], cancelEff |-> FALSE, sinceCancel |-> [S |-> 0, R |-> 0], repCancel |-> [S |-> FALSE, R |-> FALSE], ncancel |-> 0, nsusp |-> 0, suspTime |-> 0, nfaults |-> 1, adversary |-> FALSE, rxMeta |-> FALSE, rxEof |-> TRUE, everFault |-> [S |-> FALSE, R |-> FALSE], succ |-> [S |-> FALSE, R |-> FALSE], delivered |-> FALSE, destAt |-> [st |-> "absent", len |-> 0], fp |-> 3, pend |-> {}, nEof |-> 1, nMeta |-> 1, sprog |-> 3, round |-> [reqs |-> {}, open |-> FALSE, marker |-> FALSE], promptNak |-> FALSE, finSent |-> FALSE, tx |-> [eof |-> [n |-> 1, since |-> 0, gapok |-> TRUE, mark |-> 0], fin |-> [n |-> 0, since |-> 0, gapok |-> TRUE, mark |-> 0], nak |-> [n |-> 0, since |-> 0, gapok |-> TRUE, mark |-> 0]], finR |-> [cond |-> "NoError", set |-> FALSE, deliv |-> "Incomplete", fstat |-> "Unreported", resp |-> <<>>], finPdu |-> [cond |-> "NoError", set |-> FALSE, deliv |-> "Incomplete", fstat |-> "Unreported", resp |-> <<>>]]]),
    ([ev |-> [rinc |-> 1, a |-> "Deliver", S |-> [until |-> 2, can |-> FALSE], out |-> <<>>, d |-> 0, ch |-> "c2r", idx |-> 1, c |-> "", res |-> "ok", ind |-> <<[e |-> "R", k |-> "MetadataRecv", size |-> 3]>>, pin |-> [closure |-> FALSE, k |-> "Metadata", size |-> 3, nreqs |-> 0, ok |-> TRUE, hdr |-> TRUE, dir |-> "c2r"], dest |-> [st |-> "absent", len |-> 0], tree |-> <<>>, salive |-> TRUE, ralive |-> TRUE, nc2r |-> 2, nc2s |-> 1, R |-> [until |-> 4, can |-> TRUE]],r |-> [closure |-> FALSE, alive |-> TRUE, st |-> "Recv", cond |-> "NoError", ckok |-> TRUE, txs |-> "Active", status |-> "Undefined", deliv |-> "Incomplete", fstat |-> "Unreported", naks |-> <<<<0, 0>>, <<0, 3>>>>, ack |-> FALSE, ackcond |-> "NoError", ackstatus |-> "Undefined", prompt |-> "None", tAck |-> [run |-> FALSE, el |-> 0, occ |-> FALSE, cnt |-> 0], tInact |-> [run |-> TRUE, el |-> 0, occ |-> FALSE, cnt |-> 0], resp |-> <<>>, meta |-> TRUE, segs |-> <<>>, rsize |-> 0, eofrx |-> TRUE, fsize |-> 3, ckset |-> TRUE, fopen |-> FALSE, fin |-> [cond |-> "NoError", set |-> FALSE, loc |-> FALSE, flag |-> FALSE, deliv |-> "Incomplete", fstat |-> "Unreported", resp |-> <<>>], nakMark |-> 0, delayed |-> <<>>, tNak |-> [run |-> FALSE, el |-> 0, occ |-> FALSE, cnt |-> 0]],c2r |-> <<[k |-> "Data", len |-> 2, ok |-> TRUE, hdr |-> TRUE, dir |-> "c2r", off |-> 0, inside |-> TRUE, fits |-> TRUE], [k |-> "Data", len |-> 1, ok |-> TRUE, hdr |-> TRUE, dir |-> "c2r", off |-> 2, inside |-> TRUE, fits |-> TRUE]>>,hist |-> <<[a |-> "S_Send", i |-> 0, d |-> 0, ch |-> "", c |-> ""], [a |-> "S_Send", i |-> 0, d |-> 0, ch |-> "", c |-> ""], [a |-> "S_Send", i |-> 0, d |-> 0, ch |-> "", c |-> ""], [a |-> "S_Send", i |-> 0, d |-> 0, ch |-> "", c |-> ""], [a |-> "Deliver", i |-> 4, d |-> 0, ch |-> "c2r", c |-> ""], [a |-> "R_Send", i |-> 0, d |-> 0, ch |-> "", c |-> ""], [a |-> "Deliver", i |-> 1, d |-> 0, ch |-> "c2r", c |-> ""]>>,s |-> [alive |-> TRUE, st |-> "Eof", cond |-> "NoError", txs |-> "Active", status |-> "Undefined", deliv |-> "Incomplete", fstat |-> "Unreported", naks |-> <<>>, progress |-> 3, rfs |-> 0, eof |-> [cond |-> "NoError", set |-> TRUE, loc |-> FALSE, flag |-> FALSE, size |-> 3, ckok |-> TRUE], ack |-> FALSE, ackcond |-> "NoError", ackstatus |-> "Undefined", prompt |-> "None", eofInd |-> FALSE, cursor |-> 3, tAck |-> [run |-> TRUE, el |-> 0, occ |-> FALSE, cnt |-> 0], tInact |-> [run |-> FALSE, el |-> 0, occ |-> FALSE, cnt |-> 0]],c2s |-> <<[k |-> "ACK", cond |-> "NoError", status |-> "Undefined", hdr |-> TRUE, dir |-> "c2s", of |-> "EOF", sub |-> 0]>>,w |-> [dest |-> [st |-> "absent", len |-> 0], tree |-> <<>>],viol |-> {},nf |-> 1,rinc |-> 1,used |-> {},o |-> [rinc |-> 1, tree |-> <<>>, born |-> [S |-> TRUE, R |-> TRUE], ended |-> [S |-> FALSE, R |-> FALSE], idle |-> [S |-> 0, R |-> 0], held |-> {}, susp |-> [S |-> FALSE, R |-> FALSE], excused |-> [S |-> FALSE, R |-> FALSE], cancel |-> [S |-> FALSE, R |-> FALSE], cancelEff |-> FALSE, sinceCancel |-> [S |-> 0, R |-> 0], repCancel |-> [S |-> FALSE, R |-> FALSE], ncancel |-> 0, nsusp |-> 0, suspTime |-> 0, nfaults |-> 1, adversary |-> FALSE, rxMeta |-> TRUE, rxEof |-> TRUE, everFault |-> [S |-> FALSE, R |-> FALSE], succ |-> [S |-> FALSE, R |-> FALSE], delivered |-> FALSE, destAt |-> [st |-> "absent", len |-> 0], fp |-> 3, pend |-> {}, nEof |-> 1, nMeta |-> 1, sprog |-> 3, round |-> [reqs |-> {}, open |-> FALSE, marker |-> FALSE], promptNak |-> FALSE, finSent |-> FALSE, tx |-> [eof |-> [n |-> 1, since |-> 0, gapok |-> TRUE, mark |-> 0], fin |-> [n |-> 0, since |-> 0, gapok |-> TRUE, mark |-> 0], nak |-> [n |-> 0, since |-> 0, gapok |-> TRUE, mark |-> 0]], finR |-> [cond |-> "NoError", set |-> FALSE, deliv |-> "Incomplete", fstat |-> "Unreported", resp |-> <<>>], finPdu |-> [cond |-> "NoError", set |-> FALSE, deliv |-> "Incomplete", fstat |-> "Unreported", resp |-> <<>>]]]),
    ([ev |-> [rinc |-> 1, a |-> "R_Send", S |-> [until |-> 2, can |-> FALSE], out |-> <<[s |-> 0, e |-> 0, k |-> "NAK", hdr |-> TRUE, dir |-> "c2s", fits |-> TRUE, reqs |-> <<<<0, 0>>>>]>>, d |-> 0, ch |-> "", idx |-> 0, c |-> "", res |-> "ok", ind |-> <<>>, pin |-> [k |-> "None"], dest |-> [st |-> "absent", len |-> 0], tree |-> <<>>, salive |-> TRUE, ralive |-> TRUE, nc2r |-> 2, nc2s |-> 2, R |-> [until |-> 3, can |-> TRUE]],r |-> [closure |-> FALSE, alive |-> TRUE, st |-> "Recv", cond |-> "NoError", ckok |-> TRUE, txs |-> "Active", status |-> "Undefined", deliv |-> "Incomplete", fstat |-> "Unreported", naks |-> <<<<0, 3>>>>, ack |-> FALSE, ackcond |-> "NoError", ackstatus |-> "Undefined", prompt |-> "None", tAck |-> [run |-> FALSE, el |-> 0, occ |-> FALSE, cnt |-> 0], tInact |-> [run |-> TRUE, el |-> 0, occ |-> FALSE, cnt |-> 0], resp |-> <<>>, meta |-> TRUE, segs |-> <<>>, rsize |-> 0, eofrx |-> TRUE, fsize |-> 3, ckset |-> TRUE, fopen |-> FALSE, fin |-> [cond |-> "NoError", set |-> FALSE, loc |-> FALSE, flag |-> FALSE, deliv |-> "Incomplete", fstat |-> "Unreported", resp |-> <<>>], nakMark |-> 0, delayed |-> <<>>, tNak |-> [run |-> TRUE, el |-> 0, occ |-> FALSE, cnt |-> 0]],c2r |-> <<[k |-> "Data", len |-> 2, ok |-> TRUE, hdr |-> TRUE, dir |-> "c2r", off |-> 0, inside |-> TRUE, fits |-> TRUE], [k |-> "Data", len |-> 1, ok |-> TRUE, hdr |-> TRUE, dir |-> "c2r", off |-> 2, inside |-> TRUE, fits |-> TRUE]>>,hist |-> <<[a |-> "S_Send", i |-> 0, d |-> 0, ch |-> "", c |-> ""], [a |-> "S_Send", i |-> 0, d |-> 0, ch |-> "", c |-> ""], [a |-> "S_Send", i |-> 0, d |-> 0, ch |-> "", c |-> ""], [a |-> "S_Send", i |-> 0, d |-> 0, ch |-> "", c |-> ""], [a |-> "Deliver", i |-> 4, d |-> 0, ch |-> "c2r", c |-> ""], [a |-> "R_Send", i |-> 0, d |-> 0, ch |-> "", c |-> ""], [a |-> "Deliver", i |-> 1, d |-> 0, ch |-> "c2r", c |-> ""], [a |-> "R_Send", i |-> 0, d |-> 0, ch |-> "", c |-> ""]>>,s |-> [alive |-> TRUE, st |-> "Eof", cond |-> "NoError", txs |-> "Active", status |-> "Undefined", deliv |-> "Incomplete", fstat |-> "Unreported", naks |-> <<>>, progress |-> 3, rfs |-> 0, eof |-> [cond |-> "NoError", set |-> TRUE, loc |-> FALSE, flag |-> FALSE, size |-> 3, ckok |-> TRUE], ack |-> FALSE, ackcond |-> "NoError", ackstatus |-> "Undefined", prompt |-> "None", eofInd |-> FALSE, cursor |-> 3, tAck |-> [run |-> TRUE, el |-> 0, occ |-> FALSE, cnt |-> 0], tInact |-> [run |-> FALSE, el |-> 0, occ |-> FALSE, cnt |-> 0]],c2s |-> <<[k |-> "ACK", cond |-> "NoError", status |-> "Undefined", hdr |-> TRUE, dir |-> "c2s", of |-> "EOF", sub |-> 0], [s |-> 0, e |-> 0, k |-> "NAK", hdr |-> TRUE, dir |-> "c2s", fits |-> TRUE, reqs |-> <<<<0, 0>>>>]>>,w |-> [dest |-> [st |-> "absent", len |-> 0], tree |-> <<>>],viol |-> {<<"C08:NakWellFormed", "">>},nf |-> 1,rinc |-> 1,used |-> {},o |-> [rinc |-> 1, tree |-> <<>>, born |-> [S |-> TRUE, R |-> TRUE], ended |-> [S |-> FALSE, R |-> FALSE], idle |-> [S |-> 0, R |-> 0], held |-> {}, susp |-> [S |-> FALSE, R |-> FALSE], excused |-> [S |-> FALSE, R |-> FALSE], cancel |-> [S |-> FALSE, R |-> FALSE], cancelEff |-> FALSE, sinceCancel |-> [S |-> 0, R |-> 0], repCancel |-> [S |-> FALSE, R |-> FALSE], ncancel |-> 0, nsusp |-> 0, suspTime |-> 0, nfaults |-> 1, adversary |-> FALSE, rxMeta |-> TRUE, rxEof |-> TRUE, everFault |-> [S |-> FALSE, R |-> FALSE], succ |-> [S |-> FALSE, R |-> FALSE], delivered |-> FALSE, destAt |-> [st |-> "absent", len |-> 0], fp |-> 3, pend |-> {}, nEof |-> 1, nMeta |-> 1, sprog |-> 3, round |-> [reqs |-> {}, open |-> TRUE, marker |-> TRUE], promptNak |-> FALSE, finSent |-> FALSE, tx |-> [eof |-> [n |-> 1, since |-> 0, gapok |-> TRUE, mark |-> 0], fin |-> [n |-> 0, since |-> 0, gapok |-> TRUE, mark |-> 0], nak |-> [n |-> 1, since |-> 0, gapok |-> TRUE, mark |-> 0]], finR |-> [cond |-> "NoError", set |-> FALSE, deliv |-> "Incomplete", fstat |-> "Unreported", resp |-> <<>>], finPdu |-> [cond |-> "NoError", set |-> FALSE, deliv |-> "Incomplete", fstat |-> "Unreported", resp |-> <<>>]]])
    >>
----


=============================================================================

---- CONFIG MC_Ack_TTrace_1790040226 ----
CONSTANTS
    MaxFaults = 1

INVARIANT
    _inv

CHECK_DEADLOCK
    \* CHECK_DEADLOCK off because of PROPERTY or INVARIANT above.
    FALSE

INIT
    _init

NEXT
    _next

CONSTANT
    _TETrace <- _trace

ALIAS
    _expression
=============================================================================
\* Generated on Tue Sep 22 01:23:47 UTC 2026