---------------------------- MODULE MC_Checksum ----------------------------
(***************************************************************************)
(* Every way of reading a content of length n <= N in chunks of 1..K bytes *)
(* gives the definition's checksum.  The reachable graph (position, chunk) *)
(* is printed; the harness replays every path of it (every composition of  *)
(* n) through the real `checksum()` behind a scripted reader.              *)
(***************************************************************************)
EXTENDS Checksum

CONSTANTS N,         \* maximum content length
          K          \* maximum chunk length

\* content of the longest file (prefixes are the shorter files): carries in both lanes
Pattern == <<1, 2, 3, 255, 254, 0, 128, 255, 255, 255, 200, 100, 7, 9, 250, 251>>
ASSUME N <= Len(Pattern)

VARIABLES n, pos, acc, last
vars == <<n, pos, acc, last>>
View == <<n, pos, acc>>

Content == SubSeq(Pattern, 1, n)

Init == n \in 0 .. N /\ pos = 0 /\ acc = AccInit /\ last = 0

Read(k) ==
  /\ pos + k <= n
  /\ acc' = Feed(acc, SubSeq(Content, pos + 1, pos + k))
  /\ pos' = pos + k
  /\ last' = k
  /\ UNCHANGED n

Next == \E k \in 1 .. K : Read(k)
Spec == Init /\ [][Next]_vars

\* C14 on the model: whatever the chunking, the result is the definition
ChunkingIrrelevant == pos = n => Finish(acc) = Sum(Content)
\* and intermediate states hold the checksum of the whole words read so far
PrefixSum == acc.ck = Sum(SubSeq(Content, 1, pos - Len(acc.pend)))

EmitExpected == pos = 0 => PrintT(<<"FILE", n, Content, Sum(Content)>>)
EmitEdge == PrintT(<<"EDGE", n, pos, last'>>)
=============================================================================
