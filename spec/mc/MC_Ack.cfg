SPECIFICATION Spec
CONSTANT MaxFaults = 2
INVARIANT OnlyKnown
VIEW View
CHECK_DEADLOCK FALSE
