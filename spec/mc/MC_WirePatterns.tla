--------------------------- MODULE MC_WirePatterns ---------------------------
(* prints the boundary patterns of Wire.tla's decoder-arithmetic model (see MC_Wire) *)
EXTENDS MC_Wire
ASSUME EmitPatterns
=============================================================================
