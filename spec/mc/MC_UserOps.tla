----------------------------- MODULE MC_UserOps -----------------------------
(***************************************************************************)
(* Enumerates the shape space of UserOps.tla (one initial state per shape), *)
(* checks the laws and prints every shape with its template.                *)
(***************************************************************************)
EXTENDS UserOps

CONSTANT Full        \* TRUE: all width pairs for the two store-and-forward messages too; FALSE: widths {1, 8} there

VARIABLE sh
Ext(c, r) == [k \in (DOMAIN c) \cup (DOMAIN r) |-> IF k \in DOMAIN r THEN r[k] ELSE c[k]]
Zero == [idw |-> 1, seqw |-> 1, l1 |-> 0, l2 |-> 0, l3 |-> 0, act |-> 0, st |-> 0, h |-> 1, bit |-> 0, bit2 |-> 0,
         bit3 |-> 0, cond |-> 0, wp |-> 0, state |-> 0]
Bit == {0, 1}
Names == {0, 1, 100}
W2 == IF Full THEN Widths ELSE {1, 8}
Params ==
       [op : {"OrigTxId", "RemoteSuspendRequest", "RemoteResumeRequest"}, idw : Widths, seqw : Widths]
  \cup [op : {"RemoteStatusReportRequest"}, idw : Widths, seqw : Widths, l1 : {0, 1, 200}]
  \cup [op : {"RemoteStatusReportResponse", "RemoteSuspendResponse", "RemoteResumeResponse"},
        idw : Widths, seqw : Widths, st : 0 .. 3, bit : Bit]
  \cup [op : {"ProxyPutRequest"}, idw : Widths, l1 : Names, l2 : {0, 1}]
  \cup [op : {"ProxyMessageToUser", "ProxyFlowLabel", "SFOMessageToUser", "SFOFlowLabel"}, l1 : {0, 1, 249}]
  \cup [op : {"ProxyFileStoreRequest", "SFOFileStoreRequest"}, act : Actions, l1 : Names, l2 : {0, 1}]
  \cup UNION {[op : {"ProxyFileStoreResponse", "SFOFileStoreResponse"}, act : {a}, st : StatusOf(a),
               l1 : Names, l2 : {0, 1}, l3 : {0, 1}] : a \in Actions}
  \cup [op : {"ProxyFaultHandlerOverride", "SFOFaultHandlerOverride"}, h : Handlers]
  \cup [op : {"ProxyTransmissionMode", "ProxySegmentationControl"}, bit : Bit]
  \cup [op : {"ProxyPutResponse"}, cond : Conds, bit : Bit, st : 0 .. 3]
  \cup [op : {"ProxyPutCancel"}]
  \cup [op : {"DirectoryListingRequest"}, l1 : Names, l2 : Names]
  \cup [op : {"DirectoryListingResponse"}, bit : Bit, l1 : Names, l2 : {0, 1}]
  \cup [op : {"SFORequest"}, st : 0 .. 3, bit : Bit, bit2 : Bit, bit3 : Bit, wp : {0, 255}, l3 : {0, 1},
        idw : W2, seqw : W2, l1 : Names, l2 : {0, 1}]
  \cup [op : {"SFOReport"}, l3 : {0, 1}, idw : W2, seqw : W2, wp : {0, 255}, cond : Conds, bit : Bit, bit2 : Bit, st : 0 .. 3]
  \cup [op : {"Report"}, idw : Widths, seqw : Widths, state : 0 .. 2, st : 0 .. 3, cond : Conds]

TemplateOf(s) == IF s.op = "Report" THEN ReportTemplate(s) ELSE Template(s)
Shapes == {s \in {Ext(Zero, x) : x \in Params} : s.op = "Report" \/ FitsTlv(Template(s))}

Init == sh \in Shapes
Next == UNCHANGED sh
Spec == Init /\ [][Next]_sh

Laws == /\ OctetsOk(TemplateOf(sh))
        /\ NibRoundTrip(sh.idw, sh.seqw)
        /\ sh.op # "Report" => sh.op \in Ops
\* every operation and every value of every packed field occurs
ASSUME \A op \in Ops : \E s \in Shapes : s.op = op
Emit == PrintT(<<"UOP", sh.op, TemplateOf(sh)>>)
=============================================================================
