SPECIFICATION Spec
CONSTANT L = 4
CONSTANT MaxBurst = 8
INVARIANT SingleBit
INVARIANT DoubleBit
INVARIANT Bursts
INVARIANT Odd3
CHECK_DEADLOCK FALSE
