------------------------------ MODULE Receiver ------------------------------
(***************************************************************************)
(* The receiving transaction: cfdp-daemon/src/transaction/recv.rs          *)
(*                                                                         *)
(* Same functional style as Sender.tla.  The record `r` mirrors the hook   *)
(* snapshot (harness/src/proj.rs recv_snap); `w` is the part of the world  *)
(* the receiver acts on: the destination file and the directory tree of    *)
(* its filestore:  w = [dest |-> [st, len], tree |-> Filestore state].     *)
(* Every operator returns [r, w, out, ind, res].                           *)
(*                                                                         *)
(* File contents: C.file[u+1] is the value of unit u (0, 1 or 2); a unit   *)
(* never written reads 0.  The modular checksum of a content is modelled   *)
(* exactly for the byte patterns the harness expands the values to         *)
(* (CkOf): 1 and 2 cancel, so checksum-neutral damage exists in the model. *)
(***************************************************************************)
EXTENDS Integers, Sequences, FiniteSets, Timer, Segments, Filestore

RNUnits(C) == Len(C.file)
RIsAck(C) == C.mode = "ack"
RHandler(C, cond) == IF cond \in DOMAIN C.handlers THEN C.handlers[cond] ELSE "Cancel"
RToInact(C) == C.to[1]
RToAck(C) == C.to[2]
RToNak(C) == C.to[3]
\* NegativeAcknowledgmentPDU::max_nak_num                          ops.rs:1073
RMaxNak(C) == (C.seg * C.unit - 8) \div 8

NoFinished == [set |-> FALSE, cond |-> "NoError", deliv |-> "Incomplete", fstat |-> "Unreported",
               resp |-> <<>>, loc |-> FALSE, flag |-> FALSE]

RInit(C) ==
  [ alive |-> TRUE, st |-> "Recv", txs |-> "Active", status |-> "Undefined",
    cond |-> "NoError", deliv |-> "Incomplete", fstat |-> "Unreported", resp |-> <<>>,
    meta |-> FALSE, closure |-> FALSE, segs |-> <<>>, rsize |-> 0,
    eofrx |-> FALSE, fsize |-> 0, ckset |-> FALSE, ckok |-> TRUE,
    ack |-> FALSE, ackcond |-> "NoError", ackstatus |-> "Undefined", fopen |-> FALSE,
    fin |-> NoFinished, prompt |-> "None", naks |-> <<>>, nakMark |-> 0, delayed |-> <<>>,
    tAck |-> CNew, tInact |-> CReset(CNew), tNak |-> CNew ]

RDead == [alive |-> FALSE]

\* ------------------------------------------------------------ segments
SegSet(segs) == UNION {Ival(segs[i][1], segs[i][2]) : i \in 1 .. Len(segs)}
SegEnd(segs) == IF segs = <<>> THEN 0 ELSE segs[Len(segs)][2]

\* ------------------------------------------------------------ contents and checksum
\* weight of a unit value in the checksum; units of >= 4 bytes hold one word (+1, -1 mod 2^32),
\* units of one byte are summed per byte lane
CkW(v) == IF v = 2 THEN -1 ELSE v
CkLanes(C) == IF C.unit >= 4 THEN 1 ELSE 4
\* checksum of the content that has the source's value on `held` and zero elsewhere
CkOf(C, held) ==
  LET L == CkLanes(C)
      lane(j) == LET us == {u \in held : u % L = j /\ u < RNUnits(C)}
                     f[S \in SUBSET us] == IF S = {} THEN 0
                                            ELSE LET x == CHOOSE y \in S : TRUE IN f[S \ {x}] + CkW(C.file[x + 1])
                 IN f[us]
  IN [j \in 0 .. (L - 1) |-> lane(j)]
CkMatches(C, held) == C.cksum = "null" \/ CkOf(C, held) = CkOf(C, 0 .. (RNUnits(C) - 1))

\* the staged file copied to the destination: length = end of the last segment
DestOf(C, segs) ==
  LET held == SegSet(segs)
      len == SegEnd(segs)
      eq == len = RNUnits(C) /\ \A u \in 0 .. (RNUnits(C) - 1) : u \in held \/ C.file[u + 1] = 0
  IN [st |-> IF eq THEN "eq" ELSE "diff", len |-> len]

\* ------------------------------------------------------------ PDUs / indications
PAckEof(r) == [k |-> "ACK", of |-> "EOF", sub |-> 0, cond |-> r.ackcond, status |-> r.ackstatus, hdr |-> TRUE, dir |-> "c2s"]
PFinished(f) == [k |-> "Finished", cond |-> f.cond, deliv |-> f.deliv, fstat |-> f.fstat, resp |-> f.resp,
                 loc |-> f.loc, hdr |-> TRUE, dir |-> "c2s"]
PNak(C, s, e, reqs) == [k |-> "NAK", s |-> s, e |-> e, reqs |-> reqs, fits |-> Len(reqs) * 8 + 5 <= C.seg * C.unit,
                        hdr |-> TRUE, dir |-> "c2s"]
PKeepAlive(p) == [k |-> "KeepAlive", progress |-> p, hdr |-> TRUE, dir |-> "c2s"]

RInd(k) == [e |-> "R", k |-> k]
RReport(r) == [e |-> "R", k |-> "Report", cond |-> r.cond, state |-> r.txs, status |-> r.status]
RFinishedInd(r, resp) == [e |-> "R", k |-> "Finished", cond |-> r.cond, deliv |-> r.deliv, fstat |-> r.fstat,
                          resp |-> resp, state |-> r.txs, status |-> r.status]

\* ------------------------------------------------------------ loop guards
RCan(r) ==                                                      \* recv.rs:168
  /\ r.alive
  /\ r.txs # "Susp"
  /\ IF r.st = "Recv" THEN r.ack \/ r.prompt # "None" \/ r.naks # <<>>
     ELSE r.fin.set /\ r.fin.flag

RUntil(r, C) ==                                                 \* recv.rs:182
  IF ~r.alive THEN Never
  ELSE LET t == UMin(UMin(IF r.tAck.run THEN CUntil(r.tAck, RToAck(C)) ELSE Never,
                          IF r.tNak.run THEN CUntil(r.tNak, RToNak(C)) ELSE Never),
                     IF r.tInact.run THEN CUntil(r.tInact, RToInact(C)) ELSE Never)
       IN IF r.delayed = <<>> THEN t ELSE UMin(t, CUntil(r.delayed[1].c, C.delay))

\* ------------------------------------------------------------ helpers
RShutdown(r, C) == [r EXCEPT !.txs = "Term",
                             !.tAck = CPause(r.tAck, RToAck(C), C.limit),
                             !.tNak = CPause(r.tNak, RToNak(C), C.limit),
                             !.tInact = CPause(r.tInact, RToInact(C), C.limit)]

RPrepareFinishedLoc(r, loc) == [r EXCEPT !.fin = [set |-> TRUE, cond |-> r.cond, deliv |-> r.deliv, fstat |-> r.fstat,
                                                  resp |-> r.resp, loc |-> loc, flag |-> TRUE]]
RPrepareFinished(r) == RPrepareFinishedLoc(r, FALSE)

\* _cancel                                                        recv.rs:510
RCancel0(r, C) ==
  LET r1 == [r EXCEPT !.st = "Canc", !.tNak = CPause(r.tNak, RToNak(C), C.limit)]
      r2 == IF RIsAck(C) THEN RPrepareFinished(r1)
            ELSE IF r1.closure THEN RPrepareFinished(r1) ELSE RShutdown(r1, C)
  IN [r |-> r2, ind |-> <<RFinishedInd(r2, <<>>)>>]

RAbandon(r, C) ==
  LET r1 == [r EXCEPT !.status = "Terminated"]
  IN [r |-> RShutdown(r1, C), ind |-> <<[e |-> "R", k |-> "Abandon", cond |-> r.cond, progress |-> r.rsize]>>]

RSuspend(r, C) ==
  [r |-> [r EXCEPT !.tAck = CPause(r.tAck, RToAck(C), C.limit),
                   !.tNak = CPause(r.tNak, RToNak(C), C.limit),
                   !.tInact = CPause(r.tInact, RToInact(C), C.limit),
                   !.txs = "Susp"],
   ind |-> <<[e |-> "R", k |-> "Suspended", cond |-> r.cond]>>]

\* handle_fault: [r, ind, go] - go = the caller continues        recv.rs:575
RFault(r, C, cond) ==
  LET r1 == [r EXCEPT !.cond = cond]
      f == <<[e |-> "R", k |-> "Fault", cond |-> cond, progress |-> r.rsize]>>
      act == RHandler(C, cond)
  IN CASE act = "Ignore" -> [r |-> r1, ind |-> f, go |-> TRUE]
       [] act = "Cancel" -> LET x == RCancel0(r1, C) IN [r |-> x.r, ind |-> f \o x.ind, go |-> FALSE]
       [] act = "Suspend" -> LET x == RSuspend(r1, C) IN [r |-> x.r, ind |-> f \o x.ind, go |-> FALSE]
       [] OTHER -> LET x == RAbandon(r1, C) IN [r |-> x.r, ind |-> f \o x.ind, go |-> FALSE]

RHasNaks(r, C) ==                                               \* recv.rs:326
  ~r.meta \/ (IF r.eofrx THEN ~IsComplete(SegSet(r.segs), r.fsize) ELSE Len(r.segs) > 1)

RAllNaks(r) ==                                                  \* recv.rs:699
  (IF r.meta THEN <<>> ELSE <<<<0, 0>>>>)
  \o Gaps(SegSet(r.segs), 0, IF r.eofrx THEN r.fsize ELSE SegEnd(r.segs))

\* finalize_receive: [r, w, ind, done]; done = FALSE: it returned early after a fault
RFinalize(r, w, C) ==                                           \* recv.rs:787
  LET isfile == r.meta /\ C.isfile
      \* verify_checksum opens the staging file if there is none yet
      r1 == [r EXCEPT !.deliv = "Complete", !.fopen = IF isfile THEN TRUE ELSE r.fopen]
      held == SegSet(r1.segs)
  IN IF isfile /\ ~(r1.ckok /\ CkMatches(C, held))
     THEN LET f == RFault(r1, C, "FileChecksumFailure") IN
          IF ~f.go THEN [r |-> f.r, w |-> w, ind |-> f.ind, done |-> FALSE]
          ELSE \* handler Ignore: the file is copied anyway
               LET r2 == [f.r EXCEPT !.fstat = "Retained", !.fopen = FALSE]
                   fs == RunRequests(w.tree, C.fsreqs)
                   r3 == [r2 EXCEPT !.resp = fs.resp]
               IN [r |-> r3, w |-> [dest |-> DestOf(C, r1.segs), tree |-> fs.fs],
                   ind |-> f.ind \o <<RFinishedInd(r3, fs.resp)>>, done |-> TRUE]
     ELSE LET r2 == IF isfile THEN [r1 EXCEPT !.fstat = "Retained", !.fopen = FALSE]
                    ELSE [r1 EXCEPT !.fstat = "Unreported"]
              fs == RunRequests(w.tree, IF r2.meta THEN C.fsreqs ELSE <<>>)
              r3 == [r2 EXCEPT !.resp = fs.resp]
          IN [r |-> r3, w |-> [dest |-> IF isfile THEN DestOf(C, r1.segs) ELSE w.dest, tree |-> fs.fs],
              ind |-> <<RFinishedInd(r3, fs.resp)>>, done |-> TRUE]

\* check_finished (acknowledged mode)                             recv.rs:1187
RCheckFinished(r, w, C) ==
  IF r.st = "Recv" /\ r.meta /\ r.eofrx /\ ~(C.isfile /\ RHasNaks(r, C))
  THEN LET x == RFinalize(r, w, C)
           r1 == RPrepareFinished([x.r EXCEPT !.st = "Fin"])
       IN [r |-> [r1 EXCEPT !.tNak = CPause(r1.tNak, RToNak(C), C.limit)], w |-> x.w, ind |-> x.ind]
  ELSE [r |-> r, w |-> w, ind |-> <<>>]

\* send_naks: [r, out, ind]                                       recv.rs:719
RSendNaks(r, C) ==
  LET recv == r.st = "Recv"          \* the NAK timer is only touched while receiving
      same == r.nakMark = r.rsize
      lim == recv /\ same /\ CLimit(r.tNak, RToNak(C), C.limit)
      f == IF lim THEN RFault([r EXCEPT !.tNak = CUpdate(r.tNak, RToNak(C), C.limit)], C, "NakLimitReached")
           ELSE [r |-> r, ind |-> <<>>, go |-> TRUE]
  IN IF ~f.go THEN [r |-> f.r, out |-> <<>>, ind |-> f.ind]
     ELSE LET r1 == IF ~recv THEN f.r
                    ELSE IF same THEN [f.r EXCEPT !.tNak = CRestart(f.r.tNak, RToNak(C), C.limit)]
                    ELSE [f.r EXCEPT !.tNak = CReset(f.r.tNak), !.nakMark = f.r.rsize]
              n == TMin(Len(r1.naks), RMaxNak(C))
              reqs == SubSeq(r1.naks, 1, n)
              s0 == IF n > 0 THEN reqs[1][1] ELSE 0
              e0 == IF n > 0 THEN reqs[n][2] ELSE SegEnd(r1.segs)
          IN [r |-> [r1 EXCEPT !.naks = SubSeq(r1.naks, n + 1, Len(r1.naks))],
              out |-> <<PNak(C, s0, e0, reqs)>>, ind |-> f.ind]

RSettle(x) ==
  IF x.r.alive /\ x.r.txs = "Term"
  THEN [r |-> RDead, w |-> x.w, out |-> x.out, ind |-> x.ind \o <<RReport(x.r)>>, res |-> x.res]
  ELSE x

\* ------------------------------------------------------------ send_pdu     recv.rs:193
RSend(r, w, C) ==
  RSettle(
  IF r.prompt # "None" THEN
     IF r.prompt = "Nak"
     THEN LET x == RSendNaks([r EXCEPT !.prompt = "None", !.naks = RAllNaks(r)], C)
          IN [r |-> x.r, w |-> w, out |-> x.out, ind |-> x.ind, res |-> "ok"]
     ELSE [r |-> [r EXCEPT !.prompt = "None"], w |-> w, out |-> <<PKeepAlive(r.rsize)>>, ind |-> <<>>, res |-> "ok"]
  ELSE IF r.ack THEN
     [r |-> [r EXCEPT !.ack = FALSE, !.ackcond = "NoError", !.ackstatus = "Undefined"],
      w |-> w, out |-> <<PAckEof(r)>>, ind |-> <<>>, res |-> "ok"]
  ELSE IF r.st = "Recv" THEN
     IF r.naks # <<>> THEN LET x == RSendNaks(r, C) IN [r |-> x.r, w |-> w, out |-> x.out, ind |-> x.ind, res |-> "ok"]
     ELSE [r |-> r, w |-> w, out |-> <<>>, ind |-> <<>>, res |-> "ok"]
  ELSE IF r.fin.set /\ r.fin.flag THEN
     [r |-> [r EXCEPT !.tAck = CRestart(r.tAck, RToAck(C), C.limit), !.fin.flag = FALSE],
      w |-> w, out |-> <<PFinished(r.fin)>>, ind |-> <<>>, res |-> "ok"]
  ELSE [r |-> r, w |-> w, out |-> <<>>, ind |-> <<>>, res |-> "ok"])

\* ------------------------------------------------------------ handle_timeout   recv.rs:220
\* number of leading delayed-NAK timers that have expired
RExpired(r, C) ==
  LET f[i \in 0 .. Len(r.delayed)] ==
        IF i = 0 THEN 0
        ELSE IF f[i - 1] = i - 1 /\ r.delayed[i].c.el >= C.delay THEN i ELSE f[i - 1]
  IN f[Len(r.delayed)]

RDelayedPart(r, C) ==
  LET idx == RExpired(r, C) IN
  IF idx = 0 THEN r
  ELSE LET held == SegSet(r.segs)
           g[i \in 0 .. idx] == IF i = 0 THEN <<>> ELSE g[i - 1] \o Gaps(held, r.delayed[i].a, r.delayed[i].b)
       IN [r EXCEPT !.naks = r.naks \o (IF r.meta THEN <<>> ELSE <<<<0, 0>>>>) \o g[idx],
                    !.delayed = SubSeq(r.delayed, idx + 1, Len(r.delayed))]

RTimeout(r, w, C) ==
  RSettle(
  LET r0 == RDelayedPart(r, C)
      r1 == [r0 EXCEPT !.tInact = CUpdate(r0.tInact, RToInact(C), C.limit)]
      done(x, ind) == [r |-> x, w |-> w, out |-> <<>>, ind |-> ind, res |-> "ok"]
      \* second half: state specific NAK / ACK timer handling
      second(x, ind) ==
        CASE x.st = "Recv" ->
               LET y == [x EXCEPT !.tNak = CUpdate(x.tNak, RToNak(C), C.limit)]
               IN IF y.tNak.occ THEN done([y EXCEPT !.naks = RAllNaks(y)], ind) ELSE done(y, ind)
          [] x.st = "Fin" ->
               LET y == [x EXCEPT !.tAck = CUpdate(x.tAck, RToAck(C), C.limit)]
               IN IF CLimit(y.tAck, RToAck(C), C.limit)
                  THEN LET f == RFault(y, C, "PositiveLimitReached") IN done(f.r, ind \o f.ind)
                  ELSE IF y.tAck.occ
                       THEN done([y EXCEPT !.fin.flag = IF y.fin.set THEN TRUE ELSE y.fin.flag,
                                           !.tAck = CRestart(y.tAck, RToAck(C), C.limit)], ind)
                       ELSE done(y, ind)
          [] OTHER ->
               LET y == [x EXCEPT !.tAck = CUpdate(x.tAck, RToAck(C), C.limit)]
               IN IF CLimit(y.tAck, RToAck(C), C.limit)
                  THEN LET a == RAbandon(y, C) IN done(a.r, ind \o a.ind)
                  ELSE IF y.tAck.occ
                       THEN done([y EXCEPT !.fin.flag = IF y.fin.set THEN TRUE ELSE y.fin.flag,
                                           !.tAck = CRestart(y.tAck, RToAck(C), C.limit)], ind)
                       ELSE done(y, ind)
  IN IF CLimit(r1.tInact, RToInact(C), C.limit)
     THEN IF r1.st = "Canc" THEN LET a == RAbandon(r1, C) IN done(a.r, a.ind)
          ELSE LET f == RFault(r1, C, "InactivityDetected")
               IN IF f.go THEN second(f.r, f.ind) ELSE done(f.r, f.ind)
     ELSE IF r1.tInact.occ
          THEN second([r1 EXCEPT !.tInact = CRestart(r1.tInact, RToInact(C), C.limit)], <<>>)
          ELSE second(r1, <<>>))

\* ------------------------------------------------------------ process_pdu      recv.rs:839
\* store_file_data: write + merge
RStore(r, p) ==
  IF p.len > 0
  THEN LET held == SegSet(r.segs)
           new == NewBytes(held, p.off, p.off + p.len)
       IN [r EXCEPT !.segs = Ranges(Merge(held, p.off, p.off + p.len)), !.rsize = r.rsize + new, !.fopen = TRUE]
  ELSE r

RCheckSize(r, C, size) ==                                       \* recv.rs:639
  IF SegEnd(r.segs) > size THEN RFault(r, C, "FilesizeError") ELSE [r |-> r, ind |-> <<>>, go |-> TRUE]

RMetaInd(C) == [e |-> "R", k |-> "MetadataRecv", size |-> RNUnits(C)]

RPdu(r, w, C, p) ==
  RSettle(
  LET r0 == IF r.txs # "Susp" THEN [r EXCEPT !.tInact = CReset(r.tInact)] ELSE r
      unexpected == [r |-> r0, w |-> w, out |-> <<>>, ind |-> <<>>, res |-> "unexpected"]
      ok(x, ww, ind) == [r |-> x, w |-> ww, out |-> <<>>, ind |-> ind, res |-> "ok"]
      segInd == <<[e |-> "R", k |-> "FileSegmentRecv", off |-> p.off, len |-> p.len]>>
  IN
  IF RIsAck(C) THEN
     CASE p.k = "Data" ->
            LET prevEnd == SegEnd(r0.segs)
                r1 == RStore(r0, p)
                r2 == IF C.nakproc = "imm" /\ ~r1.eofrx
                      THEN IF COccurred(r1.tNak, RToNak(C), C.limit)
                           THEN [r1 EXCEPT !.naks = RAllNaks(r1), !.tNak = CRestart(r1.tNak, RToNak(C), C.limit)]
                           ELSE LET r1u == [r1 EXCEPT !.tNak = CUpdate(r1.tNak, RToNak(C), C.limit)] IN
                                IF p.off > prevEnd
                                THEN IF C.delay = 0 THEN [r1u EXCEPT !.naks = Append(r1u.naks, <<prevEnd, p.off>>)]
                                     ELSE [r1u EXCEPT !.delayed = Append(r1u.delayed, [c |-> CStarted, a |-> prevEnd, b |-> p.off])]
                                ELSE r1u
                      ELSE r1
                x == RCheckFinished(r2, w, C)
            IN ok(x.r, x.w, segInd \o x.ind)
       [] p.k = "EOF" ->
            LET r1 == [r0 EXCEPT !.cond = p.cond, !.ack = TRUE, !.ackcond = p.cond, !.ackstatus = r0.status,
                                 !.ckset = TRUE, !.ckok = p.ckok]
                i1 == <<RInd("EoFRecv")>>
            IN IF p.cond = "NoError"
               THEN LET c1 == RCheckSize(r1, C, p.size)
                        r2 == [c1.r EXCEPT !.fsize = p.size, !.eofrx = TRUE]
                        x == RCheckFinished(r2, w, C)
                        r3 == IF RHasNaks(x.r, C)
                              THEN IF C.delay = 0 THEN [x.r EXCEPT !.naks = RAllNaks(x.r)]
                                   ELSE [x.r EXCEPT !.delayed = Append(x.r.delayed, [c |-> CStarted, a |-> 0, b |-> p.size])]
                              ELSE x.r
                    IN ok(r3, x.w, i1 \o c1.ind \o x.ind)
               ELSE LET x == RCancel0(r1, C) IN ok(x.r, w, i1 \o x.ind)
       [] p.k = "ACK" ->
            IF r0.st \in {"Fin", "Canc"} /\ p.of = "Finished" /\ p.sub = 1
            THEN ok(RShutdown([r0 EXCEPT !.tAck = CPause(r0.tAck, RToAck(C), C.limit)], C), w, <<>>)
            ELSE unexpected
       [] p.k = "Metadata" ->
            IF ~r0.meta
            THEN LET r1 == [r0 EXCEPT !.meta = TRUE, !.closure = p.closure]
                     x == RCheckFinished(r1, w, C)
                 IN ok(x.r, x.w, <<RMetaInd(C)>> \o x.ind)
            ELSE ok(r0, w, <<>>)
       [] p.k = "Prompt" -> ok([r0 EXCEPT !.prompt = p.opt], w, <<>>)
       [] OTHER -> unexpected
  ELSE
     CASE p.k = "Data" -> ok(RStore(r0, p), w, segInd)
       [] p.k = "ACK" ->
            IF p.of = "Finished" /\ p.sub = 1 /\ p.cond = "NoError" /\ r0.closure
            THEN ok(RShutdown(r0, C), w, <<>>) ELSE unexpected
       [] p.k = "EOF" ->
            LET r1 == [r0 EXCEPT !.cond = p.cond, !.ckset = TRUE, !.ckok = p.ckok]
                i1 == <<RInd("EoFRecv")>>
            IN IF p.cond = "NoError" /\ r1.st # "Recv" THEN ok(r1, w, i1)
               ELSE IF p.cond = "NoError"
               THEN LET c1 == RCheckSize(r1, C, p.size)
                        x == RFinalize(c1.r, w, C)
                        r2 == IF x.r.closure THEN RPrepareFinishedLoc([x.r EXCEPT !.st = "Fin"], x.r.cond # "NoError")
                              ELSE RShutdown(x.r, C)
                    IN ok(r2, x.w, i1 \o c1.ind \o x.ind)
               ELSE LET x == RCancel0(r1, C) IN ok(x.r, w, i1 \o x.ind)
       [] p.k = "Metadata" ->
            IF ~r0.meta THEN ok([r0 EXCEPT !.meta = TRUE, !.closure = p.closure], w, <<RMetaInd(C)>>)
            ELSE ok(r0, w, <<>>)
       [] OTHER -> unexpected)

\* ------------------------------------------------------------ user commands
RCmd(r, w, C, c) ==
  RSettle(
  CASE c = "Cancel" -> LET x == RCancel0([r EXCEPT !.cond = "CancelReceived"], C)
                       IN [r |-> x.r, w |-> w, out |-> <<>>, ind |-> x.ind, res |-> "ok"]
    [] c = "Suspend" -> LET x == RSuspend(r, C) IN [r |-> x.r, w |-> w, out |-> <<>>, ind |-> x.ind, res |-> "ok"]
    [] c = "Resume" ->
         LET r1 == [r EXCEPT !.tInact = CReset(r.tInact)]
             r2 == IF r1.st = "Recv"
                   THEN IF C.nakproc = "imm" \/ r1.eofrx
                        THEN [r1 EXCEPT !.tNak = CReset(r1.tNak), !.naks = RAllNaks(r1)] ELSE r1
                   ELSE [r1 EXCEPT !.tAck = CReset(r1.tAck)]
         IN [r |-> [r2 EXCEPT !.txs = "Active"], w |-> w, out |-> <<>>,
             ind |-> <<[e |-> "R", k |-> "Resumed", progress |-> r.rsize]>>, res |-> "ok"]
    [] c = "Report" -> [r |-> r, w |-> w, out |-> <<>>, ind |-> <<RReport(r)>>, res |-> "ok"]
    [] OTHER -> [r |-> r, w |-> w, out |-> <<>>, ind |-> <<>>, res |-> "ok"])

RTick(r, d) ==
  IF r.alive
  THEN [r EXCEPT !.tAck = CTick(r.tAck, d), !.tInact = CTick(r.tInact, d), !.tNak = CTick(r.tNak, d),
                 !.delayed = [i \in 1 .. Len(r.delayed) |-> [r.delayed[i] EXCEPT !.c = CTick(r.delayed[i].c, d)]]]
  ELSE r
=============================================================================
