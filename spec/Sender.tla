------------------------------- MODULE Sender -------------------------------
(***************************************************************************)
(* The sending transaction: cfdp-daemon/src/transaction/send.rs            *)
(*                                                                         *)
(* Functional style: the state of the transaction is one record `s`; every *)
(* action of the transaction task's loop (lib.rs spawn_send_transaction:   *)
(* send_pdu | one command | handle_timeout) is an operator                 *)
(*     Op(s, C, ..) == [s |-> successor, out |-> PDUs handed to the        *)
(*                      transport, ind |-> indications, res |-> result]    *)
(* C is the configuration record of the transaction.  Nondeterminism lives *)
(* only in which operator is applied (Cfdp.tla), so the same operators     *)
(* drive the model checker and validate recorded traces.                   *)
(*                                                                         *)
(* The record mirrors the hook snapshot (harness/src/proj.rs send_snap).   *)
(* Offsets are in units of C.unit bytes, times in seconds.                 *)
(***************************************************************************)
EXTENDS Integers, Sequences, FiniteSets, Timer

SNUnits(C) == Len(C.file)
SIsFile(C) == C.isfile
SIsAck(C) == C.mode = "ack"
SHandler(C, cond) == IF cond \in DOMAIN C.handlers THEN C.handlers[cond] ELSE "Cancel"
SToInact(C) == C.to[1]
SToAck(C) == C.to[2]

NoEof == [set |-> FALSE, cond |-> "NoError", loc |-> FALSE, flag |-> FALSE, size |-> 0, ckok |-> TRUE]

SInit(C) ==
  [ alive |-> TRUE, st |-> "Meta", txs |-> "Active", status |-> "Undefined",
    cond |-> "NoError", deliv |-> "Incomplete", fstat |-> "Unreported",
    naks |-> <<>>, progress |-> 0, rfs |-> 0, eof |-> NoEof, acked |-> FALSE,
    ack |-> FALSE, ackcond |-> "NoError", ackstatus |-> "Undefined",
    prompt |-> "None", eofInd |-> TRUE, cursor |-> 0,
    tAck |-> CNew, tInact |-> CNew ]

SDead == [alive |-> FALSE]

\* ------------------------------------------------------------ PDUs / indications
PMeta(C) == [k |-> "Metadata", size |-> SNUnits(C), closure |-> C.closure, nreqs |-> Len(C.fsreqs), ok |-> TRUE, hdr |-> TRUE, dir |-> "c2r"]
PData(C, off, len) == [k |-> "Data", off |-> off, len |-> len, ok |-> off + len <= SNUnits(C),
                       inside |-> off + len <= SNUnits(C), fits |-> len <= C.seg, hdr |-> TRUE, dir |-> "c2r"]
PEof(C, e) == [k |-> "EOF", cond |-> e.cond, size |-> SNUnits(C), ckok |-> TRUE, loc |-> e.loc, ok |-> TRUE, hdr |-> TRUE, dir |-> "c2r"]
PAckFin(s) == [k |-> "ACK", of |-> "Finished", sub |-> 1, cond |-> s.ackcond, status |-> s.ackstatus, hdr |-> TRUE, dir |-> "c2r"]
PPrompt(opt) == [k |-> "Prompt", opt |-> opt, hdr |-> TRUE, dir |-> "c2r"]

SInd(k) == [e |-> "S", k |-> k]
SReport(s) == [e |-> "S", k |-> "Report", cond |-> s.cond, state |-> s.txs, status |-> s.status]
SFinishedInd(s, resp) == [e |-> "S", k |-> "Finished", cond |-> s.cond, deliv |-> s.deliv, fstat |-> s.fstat,
                          resp |-> resp, state |-> s.txs, status |-> s.status]

\* ------------------------------------------------------------ loop guards
\* has_pdu_to_send                                                 send.rs:152
SCan(s) ==
  /\ s.alive
  /\ s.txs # "Susp"
  /\ \/ s.prompt # "None"
     \/ s.st \in {"Meta", "Data"}
     \/ s.st = "Eof" /\ (s.naks # <<>> \/ (s.eof.set /\ s.eof.flag))
     \/ s.st = "Canc" /\ s.eof.set /\ s.eof.flag
     \/ s.st = "Fin" /\ s.ack

\* until_timeout: only SendEof / Cancelled look at the timers      send.rs:165
SUntil(s, C) ==
  IF ~s.alive \/ s.st \notin {"Eof", "Canc"} THEN Never
  ELSE UMin(IF s.tAck.run THEN CUntil(s.tAck, SToAck(C)) ELSE Never,
            IF s.tInact.run THEN CUntil(s.tInact, SToInact(C)) ELSE Never)

\* ------------------------------------------------------------ helpers
SShutdown(s, C) == [s EXCEPT !.txs = "Term",
                             !.tAck = CPause(s.tAck, SToAck(C), C.limit),
                             !.tInact = CPause(s.tInact, SToInact(C), C.limit)]

SPrepareEof(s, C, loc) == [s EXCEPT !.acked = FALSE, !.eof = [set |-> TRUE, cond |-> s.cond, loc |-> loc, flag |-> TRUE, size |-> SNUnits(C), ckok |-> TRUE]]

\* _cancel                                                          send.rs:602
\* (computing the EOF checksum reads the whole source file: the cursor ends up at its end)
SCancel(s, C, cond) ==
  SPrepareEof([s EXCEPT !.tInact = CReset(s.tInact), !.cond = cond, !.st = "Canc",
                        !.cursor = IF SIsFile(C) THEN SNUnits(C) ELSE s.cursor], C, TRUE)

\* abandon / suspend / handle_fault: return [s, ind]
SAbandon(s, C) ==
  LET s1 == [s EXCEPT !.status = "Terminated"]
  IN [s |-> SShutdown(s1, C),
      ind |-> <<[e |-> "S", k |-> "Abandon", cond |-> s.cond, progress |-> s.progress]>>]

SSuspend(s, C) ==
  [s |-> [s EXCEPT !.tAck = CPause(s.tAck, SToAck(C), C.limit),
                   !.tInact = CPause(s.tInact, SToInact(C), C.limit),
                   !.txs = "Susp"],
   ind |-> <<[e |-> "S", k |-> "Suspended", cond |-> s.cond]>>]

SFault(s, C, cond) ==
  LET s1 == [s EXCEPT !.cond = cond]
      f == <<[e |-> "S", k |-> "Fault", cond |-> cond, progress |-> s.progress]>>
      act == SHandler(C, cond)
  IN CASE act = "Ignore" -> [s |-> s1, ind |-> f]
       [] act = "Cancel" -> [s |-> SCancel(s1, C, cond), ind |-> f]
       [] act = "Suspend" -> LET x == SSuspend(s1, C) IN [s |-> x.s, ind |-> f \o x.ind]
       [] OTHER -> LET x == SAbandon(s1, C) IN [s |-> x.s, ind |-> f \o x.ind]

\* send_eof                                                         send.rs:518
SSendEof(s, C) ==
  IF s.eof.set /\ s.eof.flag
  THEN [s |-> [s EXCEPT !.tAck = CRestart(s.tAck, SToAck(C), C.limit), !.eof.flag = FALSE],
        out |-> <<PEof(C, s.eof)>>]
  ELSE [s |-> s, out |-> <<>>]

\* send_missing_data: answer the first queued NAK request           send.rs:468
SMissing(s, C) ==
  LET rq == Head(s.naks)
      a == rq[1]
      b == rq[2]
      s1 == [s EXCEPT !.naks = Tail(s.naks), !.tInact = CRestart(s.tInact, SToInact(C), C.limit)]
      len == TMin(b - a, TMax(SNUnits(C) - a, 0))
  IN IF a = 0 /\ b = 0 THEN [s |-> s1, out |-> <<PMeta(C)>>]
     ELSE [s |-> s1, out |-> <<PData(C, a, len)>>]

\* first-pass segment at the cursor                                 send.rs:392
SFirstPass(s, C) ==
  LET off == s.cursor
      len == TMin(C.seg, SNUnits(C) - off)
  IN [s |-> [s EXCEPT !.cursor = off + len, !.progress = TMax(s.progress, off + len)],
      out |-> <<PData(C, off, len)>>]

\* the task ends when the state is Terminated (final report)        lib.rs:299,346
SSettle(x) ==
  IF x.s.alive /\ x.s.txs = "Term"
  THEN [s |-> SDead, out |-> x.out, ind |-> x.ind \o <<SReport(x.s)>>, res |-> x.res]
  ELSE x

\* ------------------------------------------------------------ send_pdu     send.rs:172
SSend(s, C) ==
  SSettle(
  IF s.prompt # "None" THEN
     [s |-> [s EXCEPT !.prompt = "None"], out |-> <<PPrompt(s.prompt)>>, ind |-> <<>>, res |-> "ok"]
  ELSE CASE s.st = "Meta" ->
         LET s1 == IF SIsFile(C) THEN [s EXCEPT !.st = "Data"]
                   ELSE [SPrepareEof(s, C, FALSE) EXCEPT !.st = "Eof"]
         IN [s |-> s1, out |-> <<PMeta(C)>>, ind |-> <<>>, res |-> "ok"]
    [] s.st = "Data" ->
         LET x == IF s.naks # <<>> THEN SMissing(s, C) ELSE SFirstPass(s, C)
             s2 == IF x.s.cursor = SNUnits(C) THEN [SPrepareEof(x.s, C, FALSE) EXCEPT !.st = "Eof"] ELSE x.s
         IN [s |-> s2, out |-> x.out, ind |-> <<>>, res |-> "ok"]
    [] s.st = "Eof" ->
         IF s.naks # <<>> THEN LET x == SMissing(s, C) IN [s |-> x.s, out |-> x.out, ind |-> <<>>, res |-> "ok"]
         ELSE LET x == SSendEof(s, C)
                  i1 == IF x.s.eofInd THEN <<SInd("EoFSent")>> ELSE <<>>
                  s1 == [x.s EXCEPT !.eofInd = FALSE]
              IN IF SIsAck(C) THEN [s |-> s1, out |-> x.out, ind |-> i1, res |-> "ok"]
                 ELSE IF ~C.closure
                      THEN [s |-> SShutdown(s1, C), out |-> x.out, ind |-> i1 \o <<SFinishedInd(s1, <<>>)>>, res |-> "ok"]
                      ELSE [s |-> [s1 EXCEPT !.tAck = CPause(s1.tAck, SToAck(C), C.limit), !.tInact = CReset(s1.tInact)],
                            out |-> x.out, ind |-> i1, res |-> "ok"]
    [] s.st = "Canc" ->
         LET x == SSendEof(s, C) IN [s |-> x.s, out |-> x.out, ind |-> <<>>, res |-> "ok"]
    [] OTHER ->   \* Fin: send the ACK of Finished and shut down
         IF s.ack THEN [s |-> SShutdown([s EXCEPT !.ack = FALSE], C), out |-> <<PAckFin(s)>>, ind |-> <<>>, res |-> "ok"]
         ELSE [s |-> s, out |-> <<>>, ind |-> <<>>, res |-> "ok"])

\* ------------------------------------------------------------ handle_timeout   send.rs:245
\* the two `if`s of each branch run one after the other on the evolving state
SAckPart(x, C, faultIt) ==
  LET s == x.s IN
  IF COccurred(s.tAck, SToAck(C), C.limit)
  THEN LET s1 == [s EXCEPT !.tAck = CUpdate(s.tAck, SToAck(C), C.limit)] IN
       IF CLimit(s1.tAck, SToAck(C), C.limit)
       THEN IF faultIt THEN LET f == SFault(s1, C, "PositiveLimitReached") IN [s |-> f.s, ind |-> x.ind \o f.ind]
            ELSE LET f == SAbandon(s1, C) IN [s |-> f.s, ind |-> x.ind \o f.ind]
       ELSE [s |-> [s1 EXCEPT !.eof.flag = IF s1.eof.set THEN TRUE ELSE s1.eof.flag], ind |-> x.ind]
  ELSE [s |-> [s EXCEPT !.tAck = CUpdate(s.tAck, SToAck(C), C.limit)], ind |-> x.ind]

STimeout(s, C) ==
  SSettle(
  CASE s.st = "Eof" ->
        LET s0 == [s EXCEPT !.tInact = CUpdate(s.tInact, SToInact(C), C.limit)]
            x1 == IF CLimit(s0.tInact, SToInact(C), C.limit)
                  THEN SFault(s0, C, "InactivityDetected") ELSE [s |-> s0, ind |-> <<>>]
            x2 == SAckPart(x1, C, TRUE)
        IN [s |-> x2.s, out |-> <<>>, ind |-> x2.ind, res |-> "ok"]
    [] s.st = "Canc" ->
        LET s0 == [s EXCEPT !.tInact = CUpdate(s.tInact, SToInact(C), C.limit)]
            x1 == IF CLimit(s0.tInact, SToInact(C), C.limit)
                  THEN SAbandon(s0, C) ELSE [s |-> s0, ind |-> <<>>]
            x2 == SAckPart(x1, C, FALSE)
        IN [s |-> x2.s, out |-> <<>>, ind |-> x2.ind, res |-> "ok"]
    [] OTHER -> [s |-> s, out |-> <<>>, ind |-> <<>>, res |-> "ok"])

\* ------------------------------------------------------------ process_pdu      send.rs:716
\* NAK requests cut to segment size from the start of each range; start = end kept verbatim
SCut(rq, C) ==
  LET a == rq[1]
      b == rq[2]
  IN IF a = b THEN <<rq>>
     ELSE IF a > b THEN <<>>
     ELSE LET n == (b - a + C.seg - 1) \div C.seg
          IN [i \in 1 .. n |->
                LET x == a + (i - 1) * C.seg
                IN IF x < TMax(b - C.seg, 0) THEN <<x, x + C.seg>> ELSE <<x, b>>]

SFlatten(reqs, C) ==
  LET f[i \in 0 .. Len(reqs)] == IF i = 0 THEN <<>> ELSE f[i - 1] \o SCut(reqs[i], C)
  IN f[Len(reqs)]

\* keep the first occurrence of every element
SDedup(q) ==
  LET f[i \in 0 .. Len(q)] ==
        IF i = 0 THEN <<>>
        ELSE IF \E j \in 1 .. (i - 1) : q[j] = q[i] THEN f[i - 1] ELSE Append(f[i - 1], q[i])
  IN f[Len(q)]

SPdu(s, C, p) ==
  SSettle(
  LET s0 == IF s.st = "Eof" /\ s.txs # "Susp" THEN [s EXCEPT !.tInact = CReset(s.tInact)] ELSE s
      unexpected == [s |-> s0, out |-> <<>>, ind |-> <<>>, res |-> "unexpected"]
      ok(x) == [s |-> x, out |-> <<>>, ind |-> <<>>, res |-> "ok"]
  IN
  IF SIsAck(C) THEN
     CASE p.k = "Finished" ->
            LET s1 == [s0 EXCEPT !.deliv = p.deliv, !.fstat = p.fstat,
                                 !.ack = TRUE, !.ackcond = s0.cond, !.ackstatus = s0.status,
                                 !.st = "Fin", !.cond = p.cond]
            IN [s |-> s1, out |-> <<>>, ind |-> <<SFinishedInd(s1, p.resp)>>, res |-> "ok"]
       [] p.k = "NAK" -> ok([s0 EXCEPT !.naks = SDedup(s0.naks \o SFlatten(p.reqs, C))])
       [] p.k = "ACK" -> IF p.of = "EOF" THEN ok([s0 EXCEPT !.tAck = CNew, !.eof.flag = FALSE, !.acked = TRUE])   \* reset + pause
                         ELSE unexpected
       [] p.k = "KeepAlive" -> ok([s0 EXCEPT !.rfs = p.progress])
       [] OTHER -> unexpected
  ELSE
     IF p.k = "Finished" /\ C.closure
     THEN LET s1 == [s0 EXCEPT !.cond = p.cond, !.deliv = p.deliv]
          IN [s |-> SShutdown(s1, C), out |-> <<>>, ind |-> <<SFinishedInd(s1, p.resp)>>, res |-> "ok"]
     ELSE unexpected)

\* ------------------------------------------------------------ user commands
SCmd(s, C, c) ==
  SSettle(
  CASE c = "Cancel" -> [s |-> SCancel(s, C, "CancelReceived"), out |-> <<>>, ind |-> <<>>, res |-> "ok"]
    [] c = "Suspend" -> LET x == SSuspend(s, C) IN [s |-> x.s, out |-> <<>>, ind |-> x.ind, res |-> "ok"]
    [] c = "Resume" ->
         LET awaiting == ~s.acked /\ ~(~SIsAck(C) /\ s.st = "Eof")
             s1 == IF s.st \in {"Eof", "Canc"}
                   THEN IF awaiting
                        THEN [s EXCEPT !.eof.flag = IF COccurred(s.tAck, SToAck(C), C.limit) /\ s.eof.set THEN TRUE ELSE s.eof.flag,
                                       !.tAck = CRestart(s.tAck, SToAck(C), C.limit),
                                       !.tInact = CRestart(s.tInact, SToInact(C), C.limit)]
                        ELSE [s EXCEPT !.tInact = CRestart(s.tInact, SToInact(C), C.limit)]
                   ELSE s
         IN [s |-> [s1 EXCEPT !.txs = "Active"], out |-> <<>>,
             ind |-> <<[e |-> "S", k |-> "Resumed", progress |-> s.progress]>>, res |-> "ok"]
    [] c = "PromptNak" -> [s |-> [s EXCEPT !.prompt = "Nak"], out |-> <<>>, ind |-> <<>>, res |-> "ok"]
    [] c = "PromptKeepAlive" -> [s |-> [s EXCEPT !.prompt = "KeepAlive"], out |-> <<>>, ind |-> <<>>, res |-> "ok"]
    [] c = "Report" -> [s |-> s, out |-> <<>>, ind |-> <<SReport(s)>>, res |-> "ok"]
    [] OTHER -> [s |-> s, out |-> <<>>, ind |-> <<>>, res |-> "ok"])

\* time passes
STick(s, d) == IF s.alive THEN [s EXCEPT !.tAck = CTick(s.tAck, d), !.tInact = CTick(s.tInact, d)] ELSE s
=============================================================================
