-------------------------------- MODULE Cfdp0 --------------------------------
(* the operator modules of the transaction model, without variables: shared by *)
(* the model (Cfdp.tla) and the trace specification (trace/CfdpTrace.tla)      *)
EXTENDS Integers, Sequences, FiniteSets, TLC, Sender, Receiver, Props
=============================================================================
