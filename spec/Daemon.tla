-------------------------------- MODULE Daemon --------------------------------
(***************************************************************************)
(* The daemon layer as a state machine: see Daemon0.tla for the routing    *)
(* operator and the description of the state.                              *)
(***************************************************************************)
EXTENDS Daemon0

VARIABLES seq,       \* seq[e]: next sequence number of entity e
          chan,      \* chan[e]: channel map
          alive,     \* alive[e]: the daemon task of e is running
          ids,       \* ids handed out so far (sequence of <<e, n>>)
          used       \* strays delivered
vars == <<seq, chan, alive, ids, used>>

Init == /\ seq = [e \in Entities |-> 0]
        /\ chan = [e \in Entities |-> <<>>]
        /\ alive = [e \in Entities |-> TRUE]
        /\ ids = <<>>
        /\ used = {}

Put(e, dst) ==
  /\ alive[e] /\ seq[e] < MaxSeq /\ dst \in Entities \ {e}
  /\ LET id == <<e, seq[e]>> IN
     /\ seq' = [seq EXCEPT ![e] = @ + 1]
     /\ chan' = [chan EXCEPT ![e] = [k \in (DOMAIN chan[e]) \cup {id} |-> IF k = id THEN [role |-> "S", st |-> "live"] ELSE chan[e][k]]]
     /\ ids' = Append(ids, id)
  /\ UNCHANGED <<alive, used>>

\* a PDU of a live transaction or a stray header reaches entity e
Forward(e, src, n, dir, dst) ==
  /\ alive[e]
  /\ LET r == Route(chan[e], Entities \ {e}, src, n, dir, IF dir = "ToSender" THEN dst ELSE src) IN
     chan' = [chan EXCEPT ![e] = r.ch]
  /\ UNCHANGED <<seq, alive, ids>>

Stray(s) ==
  /\ s \in Strays \ used
  /\ used' = used \cup {s}
  /\ Forward(s.to, s.src, s.seq, s.dir, s.dst)

\* the PDUs of a transaction started by a Put travel between its two ends
Own(e, k) ==
  /\ k \in DOMAIN chan[e] /\ chan[e][k].role = "S"
  /\ \E d \in Entities \ {e} : Forward(d, k[1], k[2], "ToReceiver", d) /\ UNCHANGED used

TaskEnds(e, k) ==
  /\ k \in DOMAIN chan[e] /\ chan[e][k].st = "live"
  /\ chan' = [chan EXCEPT ![e][k].st = "closed"]
  /\ UNCHANGED <<seq, alive, ids, used>>

Reap(e, k) ==
  /\ k \in DOMAIN chan[e] /\ chan[e][k].st = "closed"
  /\ chan' = [chan EXCEPT ![e] = [x \in (DOMAIN chan[e]) \ {k} |-> chan[e][x]]]
  /\ UNCHANGED <<seq, alive, ids, used>>

Next ==
  \/ \E e \in Entities : \E d \in Entities : Put(e, d)
  \/ \E s \in Strays : Stray(s)
  \/ \E e \in Entities : \E k \in DOMAIN chan[e] : Own(e, k) \/ TaskEnds(e, k) \/ Reap(e, k)

Spec == Init /\ [][Next]_vars

\* ------------------------------------------------------------ C11 on the model
\* transaction identifiers handed out for Put requests are distinct
IdsDistinct == \A i, j \in 1 .. Len(ids) : i # j => ids[i] # ids[j]
\* no input, however stray, stops a daemon
DaemonAlive == \A e \in Entities : alive[e]
\* a transaction task only ever sits under its own id, and a Put's transaction at its own entity
RoutingSafe == \A e \in Entities : \A k \in DOMAIN chan[e] : chan[e][k].role = "S" => k[1] = e
\* a stray PDU never creates a SEND transaction
NoSendFromStray == \A e \in Entities : Cardinality({k \in DOMAIN chan[e] : chan[e][k].role = "S"}) <= seq[e]
=============================================================================
