------------------------------ MODULE FaultPlans ------------------------------
(***************************************************************************)
(* The fault plans of the Level D runs: every placement of at most F link  *)
(* faults (drop, duplicate, delay) over the first N1 PDUs sent from the    *)
(* sending to the receiving entity and the first N2 PDUs sent back, plus   *)
(* every point at which a direction goes dark for good.  This is the       *)
(* quantifier of C02 / C03 / C10 / C19 spelled out; TLC enumerates the     *)
(* plans (one per reachable state) and the harness runs the real daemons   *)
(* under each of them.                                                     *)
(***************************************************************************)
EXTENDS Integers, FiniteSets, TLC

CONSTANTS N1, N2,     \* PDUs per direction that may be hit
          F,          \* number of faults per plan
          Delay,      \* seconds a delayed PDU is held
          Blackouts   \* TRUE: also enumerate the cut points of each direction

Acts == {"drop", "dup", "delay"}
Slots == [dir : {"fwd"}, k : 1 .. N1] \cup [dir : {"back"}, k : 1 .. N2]
Ord(s) == IF s.dir = "fwd" THEN s.k ELSE N1 + s.k

VARIABLES plan,     \* set of [dir, k, a]
          cut       \* [dir, after] or "none": direction dark after its `after`-th PDU
vars == <<plan, cut>>

Init == plan = {} /\ cut = [dir |-> "none", after |-> 0]

Add(s, a) ==
  /\ Cardinality(plan) < F
  /\ cut.dir = "none"
  /\ \A p \in plan : Ord([dir |-> p.dir, k |-> p.k]) < Ord(s)
  /\ plan' = plan \cup {[dir |-> s.dir, k |-> s.k, a |-> a]}
  /\ UNCHANGED cut

Cut(d, n) ==
  /\ Blackouts /\ cut.dir = "none"
  /\ cut' = [dir |-> d, after |-> n]
  /\ UNCHANGED plan

Next == \/ \E s \in Slots : \E a \in Acts : Add(s, a)
        \/ \E d \in {"fwd", "back"} : \E n \in 0 .. (IF d = "fwd" THEN N1 ELSE N2) : Cut(d, n)
Spec == Init /\ [][Next]_vars

Emit == PrintT(<<"PLAN", plan, cut, Delay>>)
=============================================================================
