-------------------------------- MODULE Wire --------------------------------
(***************************************************************************)
(* Wire layout of CFDP PDUs as implemented by cfdp-core/src/pdu (header.rs, *)
(* ops.rs, filestore.rs, pdu.rs): the fixed header bit by bit, the framing  *)
(* (length field, CRC) and the length of every data field as a function of *)
(* the discrete SHAPE of the PDU.  Used for C05 / C06:                     *)
(*   - TLC enumerates the shape space, checks the laws below and prints    *)
(*     every shape with its predicted header octets and lengths; the        *)
(*     harness instantiates every shape with real values, and compares      *)
(*     encoded_len() = len(encode()) = the prediction, the header octets,   *)
(*     and decode(encode(x)) = x;                                           *)
(*   - HeaderDecode is the decoder's arithmetic on attacker-controlled      *)
(*     octets with explicit machine ranges: TLC checks that no octet        *)
(*     pattern makes it leave them, and the harness replays every pattern   *)
(*     (and every truncation) into the real decoder under catch_unwind.     *)
(* Values of continuous fields (offsets, checksums, names) are not part of  *)
(* a shape; the harness fills them with seeded contents.                    *)
(***************************************************************************)
EXTENDS Integers, Sequences, FiniteSets, TLC

Widths == {1, 2, 4, 8}
Kinds == {"FileData", "FileDataSeg", "EOF", "Finished", "ACK", "Metadata", "NAK", "Prompt", "KeepAlive"}
IsDirective(k) == k \notin {"FileData", "FileDataSeg"}
NameLens == {0, 1, 255}
TlvKinds == {"none", "fsreq", "fsresp", "msg", "fho", "flow", "entity"}

Fss(sh) == IF sh.large THEN 8 ELSE 4

\* ------------------------------------------------------------ lengths
\* a fault-location / entity-id TLV: type, length-1, value
EntityTlv(w) == 2 + w

TlvLen(t, sh) ==
  CASE t = "none" -> 0
    [] t = "fsreq" -> 1 + (1 + 1 + sh.l1 + 1 + sh.l2)            \* code + action + two LV names
    [] t = "fsresp" -> 1 + (1 + 1 + sh.l1 + 1 + sh.l2 + 1 + 0)   \* code + status + two LV names + empty LV message
    [] t = "msg" -> 1 + 1 + sh.l1
    [] t = "fho" -> 1 + 1
    [] t = "flow" -> 1 + 1 + sh.l1
    [] OTHER -> EntityTlv(sh.idw)

\* length of the data field (without CRC)
DataLen(sh) ==
  CASE sh.kind = "FileData" -> Fss(sh) + sh.datal
    [] sh.kind = "FileDataSeg" -> 1 + sh.metal + Fss(sh) + sh.datal
    [] sh.kind = "EOF" -> 1 + 5 + Fss(sh) + (IF sh.err THEN EntityTlv(sh.idw) ELSE 0)
    [] sh.kind = "Finished" -> 1 + 1 + sh.nresp * (2 + (1 + 1 + sh.l1 + 1 + sh.l2 + 1)) + (IF sh.err THEN EntityTlv(sh.idw) ELSE 0)
    [] sh.kind = "ACK" -> 1 + 2
    [] sh.kind = "Metadata" -> 1 + 1 + Fss(sh) + 1 + sh.l1 + 1 + sh.l2 + TlvLen(sh.t1, sh) + TlvLen(sh.t2, sh)
    [] sh.kind = "NAK" -> 1 + 2 * Fss(sh) + sh.nreq * 2 * Fss(sh)
    [] sh.kind = "Prompt" -> 1 + 1
    [] OTHER -> 1 + Fss(sh)

\* the wire format's own limit (C05: "TLV bodies <= 255 bytes"): the body of a filestore-response TLV of a
\* Finished PDU is announced in one octet.  (In Metadata options the code writes filestore requests and
\* responses WITHOUT a length octet - ops.rs MetadataTLV::encode - so only the names' own LV limit applies.)
WellFormed(sh) == (sh.kind = "Finished" /\ sh.nresp > 0) => 1 + 1 + sh.l1 + 1 + sh.l2 + 1 <= 255

HeaderLen(sh) == 4 + 2 * sh.idw + sh.seqw
LenField(sh) == DataLen(sh) + (IF sh.crc THEN 2 ELSE 0)      \* header.rs:336-339
TotalLen(sh) == HeaderLen(sh) + LenField(sh)

\* ------------------------------------------------------------ header octets (header.rs:327-351)
B(b) == IF b THEN 1 ELSE 0
Octet0(sh) == 32 + (IF IsDirective(sh.kind) THEN 0 ELSE 16) + 8 * B(sh.toSender) + 4 * B(sh.unack) + 2 * B(sh.crc) + B(sh.large)
Octet3(sh) == 128 * B(sh.segctl) + 16 * (sh.idw - 1) + 8 * B(sh.kind = "FileDataSeg") + (sh.seqw - 1)

\* ------------------------------------------------------------ the decoder's arithmetic on the first four octets
\* o0..o3 are arbitrary octets; avail = number of bytes that follow them
U16(hi, lo) == hi * 256 + lo
HeaderDecode(o0, o1, o2, o3, avail) ==
  LET crc == (o0 \div 2) % 2 = 1
      raw == U16(o1, o2)
      \* the length of the data field without the CRC: must not leave the u16 range
      dlen == IF crc THEN raw - 2 ELSE raw
      idw == ((o3 \div 16) % 8) + 1
      seqw == (o3 % 8) + 1
      need == 2 * idw + seqw + raw
  IN IF crc /\ raw < 2 THEN [ok |-> FALSE, why |-> "length", dlen |-> 0, need |-> 0]
     ELSE IF idw \notin Widths \/ seqw \notin Widths THEN [ok |-> FALSE, why |-> "width", dlen |-> dlen, need |-> need]
     ELSE IF avail < need THEN [ok |-> FALSE, why |-> "short", dlen |-> dlen, need |-> need]
     ELSE [ok |-> TRUE, why |-> "", dlen |-> dlen, need |-> need]

\* every value the decoder computes stays inside its machine type
ArithInRange(o0, o1, o2, o3, avail) ==
  LET d == HeaderDecode(o0, o1, o2, o3, avail) IN d.dlen \in 0 .. 65535 /\ d.need \in 0 .. 65535 + 24

\* the same for a variable-length id inside a TLV: length octet + 1   (ops.rs:139)
IdDecode(lenOctet, avail) ==
  LET n == lenOctet + 1 IN
  IF n > 255 THEN [ok |-> FALSE, n |-> 0]              \* 0xFF + 1 does not fit the u8 the code computes in
  ELSE IF n \notin Widths \/ avail < n THEN [ok |-> FALSE, n |-> n]
  ELSE [ok |-> TRUE, n |-> n]
IdInRange(lenOctet, avail) == IdDecode(lenOctet, avail).n \in 0 .. 255
=============================================================================
