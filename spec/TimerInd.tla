------------------------------ MODULE TimerInd ------------------------------
(***************************************************************************)
(* Unbounded safety of the counter of Timer.tla, for EVERY timeout >= 1 and *)
(* EVERY limit >= 1 and ticks of any length: an inductive invariant         *)
(* discharged by Apalache (TLC can only enumerate small constants).         *)
(*                                                                         *)
(*   apalache-mc check --cinit=ConstInit --init=Init    --inv=IndInv --length=0 TimerInd.tla *)
(*   apalache-mc check --cinit=ConstInit --init=IndInit --inv=IndInv --length=1 TimerInd.tla *)
(*   apalache-mc check --cinit=ConstInit --init=IndInitNew --inv=Post --length=1 TimerInd.tla *)
(***************************************************************************)
EXTENDS Integers, Timer, Apalache

CONSTANTS
  \* @type: Int;
  TO,
  \* @type: Int;
  MX

VARIABLES
  \* @type: { run: Bool, cnt: Int, occ: Bool, el: Int };
  c,
  \* @type: Str;
  last

ConstInit == TO \in Nat /\ MX \in Nat /\ TO >= 1 /\ MX >= 1

Init == c = CNew /\ last = "new"

Next ==
  \/ c' = CUpdate(c, TO, MX) /\ last' = "update"
  \/ c' = CRestart(c, TO, MX) /\ last' = "restart"
  \/ c' = CReset(c) /\ last' = "reset"
  \/ c' = CPause(c, TO, MX) /\ last' = "pause"
  \/ c' = CStarted /\ last' = "start"
  \/ \E d \in Nat : c' = CTick(c, d + 1) /\ last' = "tick"

\* the inductive invariant
IndInv ==
  /\ 0 <= c.cnt /\ c.cnt <= MX          \* the count is clamped at the limit
  /\ c.el >= 0
  /\ (~c.run => c.el = 0)                \* normal form of a paused counter
  /\ (c.occ => c.cnt >= 1)               \* an expiration that occurred has been counted
  /\ last \in {"new", "update", "restart", "reset", "pause", "start", "tick"}

\* any state at all that satisfies the invariant (Gen: an unconstrained value of the variable's type)
IndInit == c = Gen(1) /\ last = Gen(1) /\ IndInv

\* (for Post: start anywhere inside the invariant, with no method "just run")
IndInitNew == c = Gen(1) /\ last = "new" /\ IndInv

\* what the methods guarantee right after they ran
Post ==
  /\ (last \in {"update", "restart", "reset", "start"} /\ c.run) => c.el < TO     \* no full period is left uncounted
  /\ last = "reset" => (c.cnt = 0 /\ ~c.occ)
  /\ last = "restart" => ~c.occ
  /\ last = "pause" => ~c.run
  /\ (last \in {"update", "restart", "pause"} /\ c.run) => CUntil(c, TO) >= 1     \* the loop's sleep is never 0 after servicing
\* non-vacuity: this one must FAIL (the count does reach the limit)
NeverFull == c.cnt < MX
=============================================================================
